#!/bin/bash
# Build the overlay venv used by every check (offline; idempotent).
set -e
cd "$(dirname "$0")"
V=.venv
if [ ! -x $V/bin/python ] || ! $V/bin/python -c "import z3, genlm.grammar" >/dev/null 2>&1; then
  rm -rf $V
  /venv/bin/python -m venv $V
  SP=$($V/bin/python -c "import sysconfig; print(sysconfig.get_paths()['purelib'])")
  echo "import site; site.addsitedir('/venv/lib/python3.12/site-packages')" > $SP/_overlay.pth
  PIP_NO_INDEX=1 $V/bin/python -m pip install -q --no-index --find-links /opt/veriftools/wheels z3-solver crosshair-tool >/dev/null 2>&1 \
    || PIP_NO_INDEX=1 $V/bin/python -m pip install -q --no-index --find-links /opt/veriftools/wheels z3-solver
fi
$V/bin/python -c "import z3, genlm.grammar; print('venv ok: z3', z3.get_version_string())"
# oracle self-test (reference models vs brute force that shares no method with them); a disagreement fails the setup
if [ "${1:-}" != "venv" ]; then $V/bin/python -m vf.selftest 2>/dev/null; fi
