#!/usr/bin/env python3
"regenerate seeded/INDEX.md from seeded/*/meta.json"
import glob, json, os
rows = []
for f in sorted(glob.glob("/verif/seeded/*/meta.json")):
    m = json.load(open(f))
    rows.append(m)
with open("/verif/seeded/INDEX.md", "w") as out:
    out.write("# Seeded changes (each breaks one property, compiles, passes the 97 existing tests)\n\n")
    out.write("Produced by independent sub-agents that saw only the property text and a scratch worktree; confirmed with `tools/eval_mutant.sh`.\n")
    out.write("To replay one: `git -C /repo apply seeded/<id>/patch.diff && ./check <PROPERTY> quick; git -C /repo checkout -- .`\n\n")
    out.write("| id | property | change | needs | caught by | how it shows |\n|---|---|---|---|---|---|\n")
    for m in rows:
        caught = ", ".join(m.get("caught_by", [])) or "**not caught**"
        out.write(f"| {m['id']} | {m['property']} | {m['summary'].replace('|', '/')} | {m['needs'].replace('|', '/')} | {caught} | {m.get('checks_run', '').replace('|', '/')} |\n")
    n = len(rows)
    c = sum(1 for m in rows if m.get("caught_by"))
    out.write(f"\n{c} of {n} caught by the quick tier of the named checks.\n")
print("INDEX.md:", len(rows), "entries")
