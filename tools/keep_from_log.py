#!/usr/bin/env python3
"""tools/keep_from_log.py <eval-log>: store every evaluated, confirmed mutant of the log under seeded/"""
import json, os, re, subprocess, sys
log = open(sys.argv[1]).read()
SUB = sys.argv[2] if len(sys.argv) > 2 else "_mutants"
TAG = sys.argv[3] if len(sys.argv) > 3 else ""
blocks = re.split(r"^=== ", log, flags=re.M)[1:]
for b in blocks:
    head, *rest = b.split("\n")
    m = re.match(r"(C\d+) (m\d+) \(checks: (.*)\)", head)
    if not m:
        continue
    prop, mid, checks = m.group(1), m.group(2), m.group(3).split()
    body = "\n".join(rest)
    conf = re.search(r"demo\(clean\)=(\d+) demo\(mutant\)=(\d+) tests: (\d+) passed", body)
    if not conf or conf.group(1) != "0" or conf.group(2) == "0" or conf.group(3) != "97":
        print("NOT CONFIRMED", prop, mid, conf.groups() if conf else None)
        continue
    caught, notes = [], []
    for c in checks:
        mm = re.search(rf"\[{c} quick\][^\n]*\n((?:(?!  -> ).*\n)*)  -> {c} exit (\d+)", body)
        if not mm:
            continue
        code = mm.group(2)
        lines = [l.strip() for l in mm.group(1).split("\n") if l.strip() and not l.startswith("VIOLATION") and not l.startswith("[")]
        if code == "1":
            caught.append(c)
            notes.append(f"./check {c} quick with the patch applied to /repo: exit 1, e.g. {lines[0] if lines else ''}")
        else:
            notes.append(f"./check {c} quick with the patch: exit {code} (not detected)")
    src = f"/tmp/wt_{prop}/{SUB}/{mid}"
    subprocess.call(["/verif/tools/keep_mutant.py", src, f"{prop}-{TAG}{mid}", ",".join(caught) or "none", " ; ".join(notes)[:600]])
