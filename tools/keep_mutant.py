#!/usr/bin/env python3
"""tools/keep_mutant.py <src-dir> <seeded-id> <caught-by: comma list or 'none'> <note>
copies patch.diff, demo.py, meta.json into /verif/seeded/<id>/ and records what was run."""
import json, os, shutil, sys
src, sid, caught, note = sys.argv[1:5]
dst = f"/verif/seeded/{sid}"
os.makedirs(dst, exist_ok=True)
for f in ("patch.diff", "demo.py"):
    shutil.copy(os.path.join(src, f), os.path.join(dst, f))
meta = json.load(open(os.path.join(src, "meta.json")))
meta["id"] = sid
meta["confirmed"] = "tools/eval_mutant.sh: patch applies to a clean scratch worktree; full test suite passes with it (97 passed); demo.py exits 0 on the original code and non-zero with the patch"
meta["checks_run"] = note
meta["caught_by"] = [] if caught == "none" else caught.split(",")
json.dump(meta, open(os.path.join(dst, "meta.json"), "w"), indent=1, ensure_ascii=False)
print("kept", dst)
