#!/bin/bash
# tools/eval_mutant.sh <mutant-dir> <PROPERTY> [more PROPERTY ...]
# 1. confirm in a scratch worktree: patch applies, full test suite passes with it, demo fails with / passes without
# 2. apply to /repo, run the given checks (quick), undo
set -u
M=$(realpath "$1"); shift
WT=/tmp/wt_eval_$$
git -C /repo worktree add -q --detach $WT HEAD || exit 2
cleanup() { git -C /repo worktree remove --force $WT >/dev/null 2>&1; }
trap cleanup EXIT
cd $WT
PYTHONPATH=$WT /venv/bin/python $M/demo.py >/tmp/demo_clean.$$ 2>&1; D0=$?
git apply $M/patch.diff || { echo "PATCH DOES NOT APPLY"; exit 2; }
PYTHONPATH=$WT /venv/bin/python $M/demo.py >/tmp/demo_mut.$$ 2>&1; D1=$?
PYTHONPATH=$WT /venv/bin/python -m pytest -q -p no:cacheprovider --timeout=900 2>&1 | tail -1 > /tmp/tests_mut.$$
echo "demo(clean)=$D0 demo(mutant)=$D1 tests: $(cat /tmp/tests_mut.$$)"
cd /verif
if [ "$#" -gt 0 ]; then
  git -C /repo status --short | grep -q . && { echo "/repo not clean"; exit 2; }
  git -C /repo apply $M/patch.diff || exit 2
  for P in "$@"; do
    timeout 3000 ./check $P quick 2>&1 | grep -E "^\[|^VIOLATION|^HARNESS|^KNOWN|^  [a-z]" | grep -v slowest | cut -c1-260 | head -8
    echo "  -> $P exit ${PIPESTATUS[0]}"
  done
  git -C /repo checkout -- .
fi
rm -f /tmp/demo_clean.$$ /tmp/demo_mut.$$ /tmp/tests_mut.$$
