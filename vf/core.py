"""Cases, obligations, symbolic run, concrete replay."""
import os
import sys
import time
import traceback
from fractions import Fraction

import z3

from . import engine as E
from . import sym as S
from .engine import Abort, Engine, HarnessError, OutOfBounds
from .oracle import Num

REPO = os.environ.get("VERIF_REPO", "/repo")


# --------------------------------------------------------------------------------------
class Ob:
    """One obligation produced by a case body on one path.

    kind 'eq'   : impl == ref as numbers of the domain (z3 terms / Fractions), under `hyps`
    kind 'bool' : `ok` is a concrete bool computed on this path (structure, key sets, ...)
    kind 'exc'  : the real code raised `exc` where the property promises a value
    kind 'oob'  : this piece is outside the stated bounds (counted, not a verdict)
    """

    __slots__ = ("kind", "label", "impl", "ref", "hyps", "ok", "detail", "exc", "sig", "tol")

    def __init__(self, kind, label, impl=None, ref=None, hyps=(), ok=None, detail="", exc=None, sig=None, tol=0):
        self.tol = tol
        self.kind = kind
        self.label = label
        self.impl = impl
        self.ref = ref
        self.hyps = list(hyps)
        self.ok = ok
        self.detail = detail
        self.exc = exc
        self.sig = sig or label


class Ctx:
    """What a case body sees: the domain, obligation constructors, guarded calls."""

    def __init__(self, D, params):
        self.D = D
        self.P = params
        self.obs = []
        self.num = D.num() if hasattr(D, "num") else Num(D.symbolic)
        self.symbolic = D.symbolic

    # -- obligations
    def eq(self, label, impl, ref, pivots=(), sig=None, exc_sig=None, hyps=()):
        D = self.D
        try:
            it = D.term(impl)
        except (HarnessError, TypeError, ValueError) as e:
            self.obs.append(Ob("exc", label, exc=TypeError(f"result is not a weight of the semiring: {impl!r} ({type(impl).__name__})"),
                               sig=exc_sig or sig, detail="not-a-weight"))
            return
        hs = [self.gt0(p) for p in pivots] + list(hyps)
        if isinstance(it, tuple):  # matrix-valued weights: one obligation per entry
            for i, (a, b) in enumerate(zip(it, ref)):
                if self.P.get("canary"):
                    b = b + b + 1
                self.obs.append(Ob("eq", f"{label} [entry {i}]", impl=a, ref=b, hyps=hs, sig=sig))
            return
        if self.P.get("canary"):
            ref = ref + ref + self.num.one  # deliberately wrong oracle: the run must report it
        self.obs.append(Ob("eq", label, impl=it, ref=ref, hyps=hs, sig=sig))

    def eq_terms(self, label, t1, t2, hyps=(), sig=None, tol=0):
        "both sides already are numbers of the domain (z3 terms / python numbers)"
        if isinstance(t1, tuple) and isinstance(t2, tuple):  # matrix-valued: one obligation per entry
            for i, (a, b) in enumerate(zip(t1, t2)):
                self.eq_terms(f"{label} [entry {i}]", a, b, hyps=hyps, sig=sig, tol=tol)
            return
        if self.P.get("canary"):
            t2 = t2 + t2 + 1
        self.obs.append(Ob("eq", label, impl=t1, ref=t2, hyps=list(hyps), sig=sig, tol=tol))

    def gt0(self, p):
        if self.symbolic:
            p = p if S.z3.is_expr(p) else z3.RealVal(str(Fraction(p)))
            return p > 0
        return p > 0

    def check(self, label, ok, detail="", sig=None):
        ok = bool(ok)
        if self.P.get("canary"):
            ok = not ok
        self.obs.append(Ob("bool", label, ok=ok, detail=detail, sig=sig))

    def unsat(self, label, formula, decode, sig=None, vars=()):
        """A formula over solver variables (e.g. a symbolic string) that must be unsatisfiable;
        `decode(model)` turns a model into concrete values for the replay run; `vars` are blocked
        model by model so that several distinct counterexamples can be collected."""
        o = Ob("formula", label, sig=sig)
        o.impl = formula
        o.ref = decode
        o.hyps = list(vars)
        self.obs.append(o)

    def oob(self, label, why=""):
        self.obs.append(Ob("oob", label, detail=why))

    def call(self, label, fn, *a, sig=None, **k):
        """Run a piece of the real code; an escaping Exception is a candidate violation."""
        try:
            return True, fn(*a, **k)
        except Exception as e:  # noqa: BLE001 - engine control flow is BaseException
            self.obs.append(Ob("exc", label, exc=e, sig=sig, detail=_site(e)))
            return False, None

    def ref(self, label, fn, *a, **k):
        """Evaluate an oracle; OutOfBounds becomes an 'oob' obligation."""
        try:
            return True, fn(*a, **k)
        except OutOfBounds as e:
            self.oob(label, str(e))
            return False, None


def _site(e):
    tb = traceback.extract_tb(e.__traceback__)
    for fr in reversed(tb):
        if "/genlm/" in fr.filename:
            return f"{type(e).__name__}@{os.path.basename(fr.filename)}:{fr.name}"
    return f"{type(e).__name__}@harness"


# --------------------------------------------------------------------------------------
CASES = {}


def case(prop, name, domain="SW"):
    def deco(fn):
        CASES[prop, name] = (fn, domain)
        fn.prop, fn.case_name, fn.domain = prop, name, domain
        return fn

    return deco


def load_props():
    import importlib
    import pkgutil

    from . import props

    for m in pkgutil.iter_modules(props.__path__):
        importlib.import_module(f"{props.__name__}.{m.name}")


class RawDomain:
    """No symbolic weights: the case talks to z3 directly (string theories) through ctx.unsat()."""

    name = "Raw"
    R = None

    def __init__(self, symbolic, values=None):
        self.symbolic = symbolic
        self.values = dict(values or {})
        self.vars = {}
        self.fixed = {}

    def term(self, w):
        return w


def make_domain(domain, symbolic, values=None):
    if domain == "Raw":
        return RawDomain(symbolic, values)
    if domain == "SM":
        return S.SymSM() if symbolic else S.ConcSM(values)
    if domain == "SW":
        return S.SymSW() if symbolic else S.ConcSW(values)
    if domain == "SNum":
        return S.SymNum() if symbolic else S.ConcNum(values)
    raise HarnessError(domain)


def reset_repo_state():
    import genlm.grammar.cfg as C

    C._gen_nt.i = 0


# --------------------------------------------------------------------------------------
class ConcreteEngine:
    """Stands in for the engine during replay: choices come from the recorded decisions."""

    def __init__(self, choices):
        self.choices = list(choices)
        self.star_args = []
        self.posvars = set()
        self.nshadow = 0
        self.hyps = []

    def choose(self, n, tag):
        if n <= 1:
            return 0
        if not self.choices:
            return 0
        c = self.choices.pop(0)
        return c if c < n else 0

    def hypothesis(self, lit):
        pass

    def decide(self, cond):  # only reached when a concrete run still holds symbolic data
        raise HarnessError("symbolic decision during concrete replay")


def _frac(v):
    if z3.is_rational_value(v):
        return v.as_fraction()
    if z3.is_algebraic_value(v):
        return Fraction(str(v.approx(12).as_fraction()))
    raise HarnessError(f"cannot read model value {v}")


def model_values(model, D):
    vals = {}
    for k, v in D.vars.items():
        mv = model.eval(v, model_completion=True)
        f = _frac(mv)
        vals[k] = f
    return vals


def tidy_values(vals):
    "candidate roundings of a model to friendlier rationals (zero pattern preserved)"
    out = []
    for denom in (1, 2, 4, 16, 64, 1024):
        c = {}
        for k, f in vals.items():
            if f == 0:
                c[k] = Fraction(0)
            else:
                r = Fraction(round(f * denom), denom)
                c[k] = r if r > 0 else Fraction(1, denom)
        if c not in out:
            out.append(c)
    if vals not in out:
        out.append(dict(vals))
    return out


def run_concrete(fn, domain, params, values, choices=()):
    if domain == "Raw":
        D = make_domain(domain, False, values)
    else:
        D = make_domain(domain, False, {int(k): Fraction(v) for k, v in values.items()})
    ctx = Ctx(D, params)
    old = E.ENG
    E.set_engine(ConcreteEngine([c for c in choices]))
    try:
        reset_repo_state()
        fn(ctx)
    finally:
        E.set_engine(old)
    return ctx.obs


def concrete_failures(obs):
    "labels of obligations that fail concretely"
    bad = []
    for o in obs:
        if o.kind == "eq":
            if not all(bool(h) for h in o.hyps):
                continue
            if o.tol:
                if abs(float(o.impl) - float(o.ref)) > o.tol * max(1.0, abs(float(o.ref))):
                    bad.append((o, f"impl={o.impl} ref={o.ref}"))
            elif Fraction(o.impl) != Fraction(o.ref):
                bad.append((o, f"impl={o.impl} ref={o.ref}"))
        elif o.kind == "bool":
            if not o.ok:
                bad.append((o, o.detail))
        elif o.kind == "exc":
            bad.append((o, f"{type(o.exc).__name__}: {o.exc} [{o.detail}]"))
    return bad


# --------------------------------------------------------------------------------------
def run_case(prop, name, params, budget=None):
    """Symbolic run of one case: explore all paths, discharge every obligation with z3."""
    fn, domain = CASES[prop, name]
    budget = budget or {}
    t0 = time.time()
    eng = Engine(timeout_ms=budget.get("query_ms", 10000), max_paths=budget.get("max_paths", 4096))
    E.set_engine(eng)
    D = make_domain(domain, True)
    D.fixed = dict(params.get("fixed", {}))
    entered = set()
    first = [True]

    def prof(frame, event, arg):
        if event == "call":
            fnm = frame.f_code.co_filename
            if fnm.startswith(REPO + "/genlm"):
                entered.add(f"{fnm[len(REPO) + 1:]}:{frame.f_code.co_name}")

    def body(e):
        reset_repo_state()
        ctx = Ctx(D, params)
        if first[0]:
            first[0] = False
            sys.setprofile(prof)
            try:
                fn(ctx)
            finally:
                sys.setprofile(None)
        else:
            fn(ctx)
        return ctx.obs

    paths = eng.explore(body)
    t_explore = time.time() - t0

    res = dict(prop=prop, case=name, params=params, domain=domain, paths=len(paths),
               obligations=0, discharged=0, inconclusive=0, oob=0, aborted=0, cuts=0,
               bool_checks=0, nontrivial=0, violations=[], samples=[], notes=[],
               vacuity_sat=0, star_obligations=0, star_discharged=0)
    ob_ms = budget.get("ob_ms", 20000)
    tz = 0.0
    nq = 0

    class _Fresh:
        """A fresh (non-incremental) solver per query: z3 then uses its full tactic pipeline
        (nlsat for non-linear reals) and honours the timeout; push/pop solving did neither reliably."""

        def __init__(self):
            self.base = []
            self.stack = []
            self.last = None

        def push(self):
            self.stack.append(len(self.base))

        def pop(self):
            del self.base[self.stack.pop():]

        def add(self, *lits):
            self.base.extend(lits)

        def check(self):
            try:
                s = z3.Solver()
                s.set("timeout", ob_ms)
                s.add(*self.base)
                self.last = s
                return s.check()
            except z3.Z3Exception as e:  # e.g. out of memory on a huge term: inconclusive, never a verdict
                res["notes"].append(f"solver gave up: {e}")
                return z3.unknown

        def model(self):
            return self.last.model()

    solver = _Fresh()
    seen_sig = set()
    for pr in paths:
        res["cuts"] += pr.cuts
        if pr.abort is not None:
            res["aborted"] += 1
            res["inconclusive"] += 1
            res["notes"].append(f"path aborted: {pr.abort.kind} {pr.abort.detail[:80]}")
            continue
        if pr.oob is not None:
            res["oob"] += 1
            continue
        obs = pr.value if pr.exc is None else [Ob("exc", "body", exc=pr.exc, detail=_site(pr.exc))]
        solver.push()
        for lit in pr.pc:
            solver.add(lit)
        for h in pr.hyps:
            solver.add(h)
        checked_vacuity = False
        rcache = {}
        for o in obs:
            if o.kind == "oob":
                res["oob"] += 1
                continue
            res["obligations"] += 1
            verdict = None
            model = None
            if o.kind == "eq" and (o.impl is o.ref or (z3.is_expr(o.impl) and z3.is_expr(o.ref) and o.impl.eq(o.ref))):
                # syntactically identical terms (hash-consed ASTs)
                verdict = "discharged"
                res["by_identity"] = res.get("by_identity", 0) + 1
                if not (z3.is_rational_value(o.ref) and o.ref.as_fraction() == 0):
                    res["nontrivial"] += 1
            elif o.kind == "eq":
                try:
                    d, d1, d2 = S.cross_diff(o.impl, o.ref, rcache)
                except (z3.Z3Exception, Abort) as e:
                    res["inconclusive"] += 1
                    res["notes"].append(f"normaliser gave up ({e}): {o.label}")
                    continue
                except ValueError:
                    # outside the rational fragment (uninterpreted functions, If): ask z3 directly
                    d, d1, d2 = z3.simplify(o.impl - o.ref), z3.RealVal(1), z3.RealVal(1)
                trivial = z3.is_rational_value(d) and d.as_fraction() == 0
                if not (z3.is_rational_value(o.ref) and o.ref.as_fraction() == 0):
                    res["nontrivial"] += 1
                if trivial:
                    # z3's rewriter already reduced impl - ref to the constant 0: `0 != 0` is unsat
                    verdict = "discharged"
                    res["by_rewriter"] = res.get("by_rewriter", 0) + 1
                else:
                    solver.push()
                    for h in o.hyps:
                        solver.add(h)
                    solver.add(d1 != 0, d2 != 0)
                    solver.add(d != 0)
                    t = time.time()
                    r = solver.check()
                    tz += time.time() - t
                    nq += 1
                    if r == z3.unsat:
                        verdict = "discharged"
                    elif r == z3.sat:
                        verdict = "sat"
                        model = solver.model()
                    else:
                        verdict = "unknown"
                    solver.pop()
                if len(res["samples"]) < 3 and not trivial and verdict == "discharged":
                    res["samples"].append(dict(label=o.label, impl=_short(o.impl), ref=_short(o.ref), verdict="unsat"))
                elif len(res["samples"]) < 2 and verdict == "discharged" and res["nontrivial"] and not z3.is_rational_value(o.ref):
                    res["samples"].append(dict(label=o.label, impl=_short(o.impl), ref=_short(o.ref), verdict="unsat (normal forms coincide)"))
            elif o.kind == "formula":
                res["nontrivial"] += 1
                s_ = z3.Solver()
                s_.set("timeout", budget.get("formula_ms", 120000))
                s_.add(o.impl)
                found = 0
                while True:
                    t = time.time()
                    r = s_.check()
                    tz += time.time() - t
                    nq += 1
                    if len(res["samples"]) < 3:
                        res["samples"].append(dict(label=o.label, verdict=str(r), seconds=round(time.time() - t, 2)))
                    if r == z3.unsat:
                        verdict = "discharged" if found == 0 else "violated"
                        break
                    if r == z3.unknown:
                        verdict = "unknown" if found == 0 else "violated"
                        break
                    mdl = s_.model()
                    cand = o.ref(mdl)
                    cobs = run_concrete(fn, domain, params, cand, [])
                    bad = [(co, why) for co, why in concrete_failures(cobs) if co.label == o.label]
                    found += 1
                    if bad:
                        res["violations"].append(dict(label=o.label, sig=bad[0][0].sig or o.sig, kind="formula", reproduced=True, why=bad[0][1], values=cand, choices=[]))
                    else:
                        res["violations"].append(dict(label=o.label, sig=o.sig, kind="formula", reproduced=False, values=cand, choices=[]))
                        res["notes"].append(f"solver model for {o.label} did not reproduce: {cand}")
                    if not o.hyps or found >= 4:
                        verdict = "violated"
                        break
                    s_.add(z3.Or(*[v != mdl.eval(v, model_completion=True) for v in o.hyps]))
                if verdict == "violated":
                    continue
            elif o.kind == "bool":
                res["bool_checks"] += 1
                if o.ok:
                    verdict = "discharged"
                    res["nontrivial"] += 1
                    if len(res["samples"]) < 3:
                        res["samples"].append(dict(label=o.label, path_condition=_short(z3.And(*pr.pc)) if pr.pc else "true", detail=o.detail[:160], verdict="holds on this path"))
                else:
                    verdict = "sat"
            elif o.kind == "exc":
                verdict = "sat"
            if verdict == "discharged":
                res["discharged"] += 1
                continue
            if verdict == "unknown":
                res["inconclusive"] += 1
                res["notes"].append(f"unknown: {o.label}")
                continue
            # candidate violation: need a model of the path (+ the disagreement for eq)
            if model is None:
                solver.push()
                for h in o.hyps:
                    solver.add(h)
                t = time.time()
                r = solver.check()
                tz += time.time() - t
                nq += 1
                model = solver.model() if r == z3.sat else None
                solver.pop()
                if r == z3.unsat:
                    res["discharged"] += 1  # path infeasible under hypotheses: vacuous
                    continue
                if model is None:
                    res["inconclusive"] += 1
                    res["notes"].append(f"no model for failing {o.kind} obligation {o.label}")
                    continue
            key = (o.sig, o.kind)
            if key in seen_sig and len(res["violations"]) >= 1:
                # same signature already reported from this case: count, do not replay again
                res["violations"][-1]["more"] = res["violations"][-1].get("more", 0) + 1
                continue
            vals = model_values(model, D)
            confirmed = None
            for cand in tidy_values(vals):
                try:
                    cobs = run_concrete(fn, domain, params, cand, pr.decisions_choices if hasattr(pr, "decisions_choices") else _choices(pr))
                except (OverflowError, ZeroDivisionError):
                    continue  # this rounding of the model leaves the oracle's convergence domain
                except HarnessError:
                    raise
                bad = [(co, why) for co, why in concrete_failures(cobs) if co.label == o.label]
                if bad:
                    confirmed = (cand, bad[0][1], bad[0][0])
                    break
            if confirmed is None:
                res["notes"].append(f"counterexample for {o.label} did not reproduce concretely: {vals}")
                res["violations"].append(dict(label=o.label, sig=o.sig, kind=o.kind, reproduced=False,
                                              values={str(k): str(v) for k, v in vals.items()},
                                              choices=_choices(pr)))
                continue
            seen_sig.add(key)
            cand, why, co = confirmed
            sig = o.sig
            if co.kind == "exc":
                sig = f"{o.sig}|{co.detail}"
            res["violations"].append(dict(label=o.label, sig=sig, kind=co.kind, reproduced=True, why=why,
                                          values={str(k): str(v) for k, v in cand.items()},
                                          choices=_choices(pr)))
        if not checked_vacuity and obs:
            t = time.time()
            r = solver.check()
            tz += time.time() - t
            nq += 1
            if r == z3.sat:
                res["vacuity_sat"] += 1
        # the implementation's own star arguments (path hypotheses `arg < 1`) follow from the oracle's
        # convergence pivots?  time-boxed; when not established the evidence says the identities hold
        # "wherever the implementation's own star arguments are < 1"
        if pr.hyps and budget.get("star_check", True):
            seen_p, pivs = set(), []
            for o in obs:
                if o.kind == "eq":
                    for h in o.hyps:
                        if z3.is_expr(h) and h.get_id() not in seen_p:
                            seen_p.add(h.get_id())
                            pivs.append(h)
            res["star_obligations"] += 1
            try:
                s_ = z3.Solver()
                s_.set("timeout", budget.get("star_ms", 3000))
                s_.add(*pr.pc)
                s_.add(*pivs)
                s_.add(z3.Or(*[z3.Not(h) for h in pr.hyps]))
                t = time.time()
                r = s_.check()
                tz += time.time() - t
                nq += 1
                if r == z3.unsat:
                    res["star_discharged"] += 1
            except z3.Z3Exception:
                pass  # not established on this path (informative counter only)
        solver.pop()
    st = eng.stats()
    res.update(explore=st, explore_s=round(t_explore, 3), ob_queries=nq, ob_seconds=round(tz, 3),
               functions_entered=sorted(entered), wall_s=round(time.time() - t0, 3))
    if eng.exhausted:
        res["inconclusive"] += len(eng.pending)
        res["notes"].append(f"path budget exhausted, {len(eng.pending)} prefixes unexplored")
    res["notes"] = res["notes"][:8]
    return res


def _choices(pr):
    return [d for d in pr.decisions if not isinstance(d, bool)]


def _short(t, n=160):
    s = str(z3.simplify(t)) if z3.is_expr(t) else str(t)
    s = " ".join(s.split())
    return s if len(s) <= n else s[:n] + "..."


def replay_job(job):
    """Concrete replay of a recorded counterexample against the real code."""
    fn, domain = CASES[job["prop"], job["case"]]
    obs = run_concrete(fn, domain, job["params"], job["values"], job.get("choices", []))
    bad = [(o.label, why) for o, why in concrete_failures(obs)]
    hit = [b for b in bad if b[0] == job.get("label")]
    return dict(violations=[], replay=dict(label=job.get("label"), reproduced=bool(hit), observed=hit[:1], all_failures=bad[:10]))


def split_job(job, bits):
    """Split a job into 2^len(bits) jobs, each fixing the zero/non-zero pattern of the weights in `bits`."""
    import itertools

    out = []
    for pat in itertools.product([0, 1], repeat=len(bits)):
        j = dict(job)
        j["params"] = dict(job["params"], fixed={str(k): b for k, b in zip(bits, pat)})
        out.append(j)
    return out
