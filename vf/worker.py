"""Worker process: one JSON job per input line, one JSON result per output line."""
import json
import os
import resource
import sys
import time
import traceback
import warnings


def main():
    warnings.filterwarnings("ignore")
    mem = int(os.environ.get("VERIF_WORKER_MEM_GB", "6")) << 30
    try:
        resource.setrlimit(resource.RLIMIT_AS, (mem, mem))
    except (ValueError, OSError):
        pass
    sys.setrecursionlimit(10000)
    out = os.fdopen(os.dup(1), "w")
    os.dup2(2, 1)  # anything the code under test prints goes to stderr
    from . import core

    core.load_props()
    out.write(json.dumps({"ready": True}) + "\n")
    out.flush()
    for line in sys.stdin:
        line = line.strip()
        if not line:
            continue
        job = json.loads(line)
        t0 = time.time()
        try:
            if job.get("mode") == "replay":
                res = core.replay_job(job)
            else:
                res = core.run_case(job["prop"], job["case"], job["params"], job.get("budget"))
        except core.HarnessError as e:
            res = dict(harness_error=f"{e}", tb=traceback.format_exc()[-1500:])
        except MemoryError:
            res = dict(resource="memory")
        except RecursionError as e:
            res = dict(harness_error=f"RecursionError {e}", tb=traceback.format_exc()[-1500:])
        except Exception as e:  # harness bug: never a verdict
            res = dict(harness_error=f"{type(e).__name__}: {e}", tb=traceback.format_exc()[-1500:])
        res["job_id"] = job.get("job_id")
        res["job_wall_s"] = round(time.time() - t0, 3)
        out.write(json.dumps(res, default=str) + "\n")
        out.flush()


if __name__ == "__main__":
    main()
