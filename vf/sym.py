"""Symbolic weight domains injected into the real code, and their concrete twins for replay.

SW   - a user semiring (subclass of the repo's `Semiring`) whose score is a z3 real >= 0.
       Strict: only + * star == != metric, exactly what the semiring protocol promises.
SNum - a number-like object (z3 real) usable wherever the repo works with plain Python
       numbers (the `Float` semiring, scores of Real/MaxTimes/...).
QW   - concrete twin of SW over fractions.Fraction (replay).
"""
from fractions import Fraction

import z3

from genlm.grammar.semiring import Semiring
from genlm.grammar.chart import Chart

from . import engine as E
from .engine import Abort, HarnessError

SOM_BLOWUP = 200000


# --------------------------------------------------------------------------------------
# rational normal form of z3 real terms
# --------------------------------------------------------------------------------------
def _is_one(t):
    return z3.is_rational_value(t) and t.as_fraction() == 1


def ratform(t, cache=None):
    "z3 real term -> (num, den), polynomial z3 terms without division"
    if cache is None:
        cache = {}
    k = t.get_id()
    if k in cache:
        return cache[k][0]
    one = z3.RealVal(1)
    d = t.decl().kind()
    if z3.is_rational_value(t) or z3.is_const(t):
        r = (t, one)
    elif d == z3.Z3_OP_ADD:
        n, dd = ratform(t.arg(0), cache)
        for a in t.children()[1:]:
            n2, d2 = ratform(a, cache)
            if d2.eq(dd):
                n = n + n2
            elif _is_one(dd):
                n, dd = n * d2 + n2, d2
            elif _is_one(d2):
                n = n + n2 * dd
            else:
                n, dd = n * d2 + n2 * dd, dd * d2
        r = (n, dd)
    elif d == z3.Z3_OP_SUB:
        n, dd = ratform(t.arg(0), cache)
        for a in t.children()[1:]:
            n2, d2 = ratform(a, cache)
            if d2.eq(dd):
                n = n - n2
            elif _is_one(dd):
                n, dd = n * d2 - n2, d2
            elif _is_one(d2):
                n = n - n2 * dd
            else:
                n, dd = n * d2 - n2 * dd, dd * d2
        r = (n, dd)
    elif d == z3.Z3_OP_UMINUS:
        n, dd = ratform(t.arg(0), cache)
        r = (-n, dd)
    elif d == z3.Z3_OP_MUL:
        n, dd = one, one
        for a in t.children():
            n2, d2 = ratform(a, cache)
            n = n2 if _is_one(n) else (n if _is_one(n2) else n * n2)
            dd = d2 if _is_one(dd) else (dd if _is_one(d2) else dd * d2)
        r = (n, dd)
    elif d == z3.Z3_OP_DIV:
        n1, d1 = ratform(t.arg(0), cache)
        n2, d2 = ratform(t.arg(1), cache)
        r = (n1 * d2 if not _is_one(d2) else n1, d1 * n2 if not _is_one(d1) else n2)
    elif d == z3.Z3_OP_POWER and z3.is_rational_value(t.arg(1)) and t.arg(1).as_fraction().denominator == 1:
        n1, d1 = ratform(t.arg(0), cache)
        k_ = int(t.arg(1).as_fraction())
        if k_ >= 0:
            n, dd = one, one
            for _ in range(k_):
                n, dd = n * n1, dd * d1
            r = (n, dd)
        else:
            n, dd = one, one
            for _ in range(-k_):
                n, dd = n * d1, dd * n1
            r = (n, dd)
    else:
        raise ValueError(f"ratform: unsupported {t.decl()}")
    cache[k] = (r, t)  # keep t alive: AST ids are reused after garbage collection
    return r


def som(t):
    try:
        return z3.simplify(t, som=True, som_blowup=SOM_BLOWUP)
    except z3.Z3Exception as e:  # the rewriter ran out of memory on a huge normal form: never a verdict
        raise Abort("resource", f"z3 rewriter: {e}")


def cross_diff(a, b, cache=None):
    "polynomial whose vanishing (with nonzero denominators) is a == b; plus the two denominators"
    n1, d1 = ratform(a, cache)
    n2, d2 = ratform(b, cache)
    if d1.eq(d2):
        return som(n1 - n2), d1, d2
    return som(n1 * d2 - n2 * d1), d1, d2


def _mono_sign(m, posvars):
    "sign (+1/-1/None) of a monomial given that every variable in posvars is > 0"
    if z3.is_rational_value(m):
        f = m.as_fraction()
        return 0 if f == 0 else (1 if f > 0 else -1)
    k = m.decl().kind()
    if z3.is_const(m):
        return 1 if m.get_id() in posvars else None
    if k == z3.Z3_OP_MUL:
        s = 1
        for c in m.children():
            cs = _mono_sign(c, posvars)
            if cs is None:
                return None
            s *= cs
        return s
    if k == z3.Z3_OP_POWER:
        b = _mono_sign(m.arg(0), posvars)
        return 1 if b == 1 else None
    if k == z3.Z3_OP_UMINUS:
        b = _mono_sign(m.arg(0), posvars)
        return None if b is None else -b
    return None


def poly_sign(p, posvars):
    "sign of an expanded polynomial when all monomials agree in sign (+1, -1, 0) else None"
    p = som(p)
    if z3.is_app(p) and p.decl().kind() == z3.Z3_OP_ADD:
        signs = {_mono_sign(c, posvars) for c in p.children()}
        signs.discard(0)
        if None in signs or len(signs) != 1:
            return 0 if not signs else None
        return signs.pop()
    return _mono_sign(p, posvars)


# --------------------------------------------------------------------------------------
# symbolic booleans
# --------------------------------------------------------------------------------------
class SBool:
    __slots__ = ("e",)

    def __init__(self, e):
        self.e = e

    def __bool__(self):
        return E.ENG.decide(self.e)

    # the default Semiring.metric returns (a != b); the library then tests `<= tol`
    def __le__(self, tol):
        return SBool(z3.Not(self.e))

    def __lt__(self, tol):
        return SBool(z3.Not(self.e))

    def __gt__(self, tol):
        return SBool(self.e)

    def __ge__(self, tol):
        return SBool(self.e)


def _neg(r):
    return (not r) if isinstance(r, bool) else SBool(z3.Not(r.e))


def sym_equal(a, b):
    """a == b for z3 real terms: bool when decided by normalisation, else SBool."""
    memo = E.ENG.__dict__.setdefault("_eqmemo", {})
    if E.ENG.__dict__.get("_eqmemo_path") != E.ENG.npaths:
        memo.clear()
        E.ENG._eqmemo_path = E.ENG.npaths
    key = (a.get_id(), b.get_id())
    hit = memo.get(key)
    if hit is not None:
        return hit[0]
    r = _sym_equal(a, b)
    memo[key] = (r, a, b)  # keep the terms alive: AST ids are reused after garbage collection
    return r


def _sym_equal(a, b):
    d, d1, d2 = cross_diff(a, b)
    if z3.is_rational_value(d):
        return d.as_fraction() == 0
    s = poly_sign(d, E.ENG.posvars)
    if s in (1, -1):
        E.ENG.nshadow += 1
        return False
    return SBool(d == 0)


# --------------------------------------------------------------------------------------
# SW: strict user semiring over symbolic non-negative reals
# --------------------------------------------------------------------------------------
class SW(Semiring):
    """nz: True = known positive, False = known zero, None = unknown"""

    __slots__ = ("nz",)

    def __init__(self, e, nz=None):
        self.score = e
        self.nz = nz

    @classmethod
    def chart(cls, *args, **kwargs):
        return CHART_FACTORY[0](cls, *args, **kwargs)

    def __add__(s, o):
        if not isinstance(o, SW):
            return NotImplemented
        if o.nz is False:
            return s
        if s.nz is False:
            return o
        nz = True if (s.nz is True or o.nz is True) and s.nz is not None and o.nz is not None else None
        return SW(s.score + o.score, nz)

    def __mul__(s, o):
        if not isinstance(o, SW):
            return NotImplemented
        if s.nz is False or o.nz is False:
            return SW.zero
        if s is SW.one:
            return o
        if o is SW.one:
            return s
        nz = True if (s.nz is True and o.nz is True) else None
        return SW(s.score * o.score, nz)

    def star(s):
        if s.nz is False:
            return SW.one
        E.ENG.star_args.append(s.score)
        E.ENG.hypothesis(s.score < 1)
        return SW(1 / (1 - s.score), True if s.nz is True else None)

    def _eq(s, o):
        if s.nz is not None and o.nz is not None:
            if s.nz is False and o.nz is False:
                E.ENG.nshadow += 1
                return True
            if s.nz != o.nz:
                E.ENG.nshadow += 1
                return False
        return sym_equal(s.score, o.score)

    def __eq__(s, o):
        if not isinstance(o, SW):
            return False
        return s._eq(o)

    def __ne__(s, o):
        if not isinstance(o, SW):
            return True
        return _neg(s._eq(o))

    def metric(s, o):
        return s.__ne__(o)

    __hash__ = None

    def __repr__(s):
        return f"<{z3.simplify(s.score)}>"


SW.zero = SW(z3.RealVal(0), False)
SW.one = SW(z3.RealVal(1), True)

CHART_FACTORY = [Chart]


# --------------------------------------------------------------------------------------
# SNum: number-like symbolic real
# --------------------------------------------------------------------------------------
def lift(x):
    if isinstance(x, SNum):
        return x.e
    if isinstance(x, bool):
        return z3.RealVal(int(x))
    if isinstance(x, int):
        return z3.RealVal(x)
    if isinstance(x, Fraction):
        return z3.RealVal(str(x))
    if isinstance(x, float):
        if x != x or x in (float("inf"), float("-inf")):
            raise TypeError("non-finite float")
        return z3.RealVal(str(Fraction(x)))
    try:
        import numpy as np

        if isinstance(x, np.integer):
            return z3.RealVal(int(x))
        if isinstance(x, np.floating):
            return lift(float(x))
    except ImportError:  # pragma: no cover
        pass
    raise TypeError(type(x))


def sgn_of(x):
    "sign shadow of a python number or SNum: 1, -1, 0 or None"
    if isinstance(x, SNum):
        return x.sg
    if x == 0:
        return 0
    return 1 if x > 0 else -1


def _inf(x):
    return isinstance(x, float) and x in (float("inf"), float("-inf"))


class SNum:
    """sg: sign shadow (1 positive, -1 negative, 0 zero, None unknown)."""

    __slots__ = ("e", "sg", "absof", "oneminus")

    def __init__(self, e, sg=None, absof=None, oneminus=None):
        self.e = e
        self.sg = sg
        self.absof = absof
        self.oneminus = oneminus

    # ---- arithmetic
    def __add__(s, o):
        if _inf(o):
            return o
        so = sgn_of(o)
        if so == 0:
            return s
        if s.sg == 0:
            return o if isinstance(o, SNum) else SNum(lift(o), so)
        sg = s.sg if (s.sg is not None and s.sg == so) else None
        return SNum(s.e + lift(o), sg)

    __radd__ = __add__

    def __sub__(s, o):
        if _inf(o):
            return -o
        so = sgn_of(o)
        if so == 0:
            return s
        sg = s.sg if (s.sg is not None and so is not None and s.sg == -so) else None
        return SNum(s.e - lift(o), sg)

    def __rsub__(s, o):
        if _inf(o):
            return o
        so = sgn_of(o)
        if s.sg == 0:
            return o
        sg = so if (s.sg is not None and so is not None and (so == -s.sg or so == 0)) else None
        if so == 0 and s.sg is not None:
            sg = -s.sg
        return SNum(lift(o) - s.e, sg, oneminus=(s if (not isinstance(o, SNum) and o == 1) else None))

    def __mul__(s, o):
        if _inf(o):
            if s.sg in (1, -1):
                return o if s.sg == 1 else -o
            raise TypeError("inf * unknown-sign symbolic")
        so = sgn_of(o)
        if so == 0 or s.sg == 0:
            return 0
        if not isinstance(o, SNum) and o == 1:
            return s
        sg = (s.sg * so) if (s.sg is not None and so is not None) else None
        return SNum(s.e * lift(o), sg)

    __rmul__ = __mul__

    def __truediv__(s, o):
        if _inf(o):
            return 0
        so = sgn_of(o)
        if so == 0:
            raise ZeroDivisionError("symbolic / 0")
        if so is None:
            if isinstance(o, SNum) and bool(o == 0):
                raise ZeroDivisionError("symbolic / symbolic zero")
            so = sgn_of(o)
        if not isinstance(o, SNum) and o == 1:
            return s
        sg = (s.sg * so) if (s.sg is not None and so is not None) else None
        return SNum(s.e / lift(o), sg)

    def __rtruediv__(s, o):
        if s.sg == 0:
            raise ZeroDivisionError("x / symbolic zero")
        if s.sg is None and s.oneminus is None:
            if bool(s == 0):
                raise ZeroDivisionError("x / symbolic zero")
        so = sgn_of(o)
        if so == 0:
            return 0
        if s.oneminus is not None and not isinstance(o, SNum) and o == 1:
            # 1 / (1 - x): the geometric-series star of the Float-like semirings
            x = s.oneminus
            E.ENG.star_args.append(x.e)
            E.ENG.hypothesis(x.e < 1)
            return SNum(1 / s.e, 1)
        sg = (s.sg * so) if (s.sg is not None and so is not None) else None
        return SNum(lift(o) / s.e, sg)

    def __neg__(s):
        return SNum(-s.e, None if s.sg is None else -s.sg)

    def __pos__(s):
        return s

    def __abs__(s):
        if s.sg == 1 or s.sg == 0:
            return SNum(s.e, s.sg, absof=s)
        if s.sg == -1:
            return SNum(-s.e, 1, absof=s)
        return SNum(z3.If(s.e >= 0, s.e, -s.e), None, absof=s)

    def __pow__(s, k):
        if not isinstance(k, int):
            raise TypeError("symbolic ** non-int")
        if k < 0:
            if s.sg == 0:
                raise ZeroDivisionError("0 ** negative")
            if s.sg is None and bool(s == 0):
                raise ZeroDivisionError("0 ** negative")
            base = SNum(1 / s.e, s.sg)
            k = -k
        else:
            base = s
        r = 1
        for _ in range(k):
            r = r * base
        return r

    # ---- comparisons
    def _known_sign(s):
        "try harder to find the sign: normalise and inspect monomials"
        if s.sg is not None:
            return s.sg
        try:
            n, d = ratform(s.e)
        except ValueError:
            return None
        pv = E.ENG.posvars
        sn = poly_sign(n, pv)
        if sn == 0:
            s.sg = 0
            return 0
        sd = poly_sign(d, pv)
        if sn is not None and sd in (1, -1):
            s.sg = sn * sd
            return s.sg
        return None

    def __eq__(s, o):
        if _inf(o):
            return False
        try:
            lo = lift(o)
        except TypeError:
            return False
        so = sgn_of(o)
        if s.sg is not None and so is not None:
            if s.sg != so:
                E.ENG.nshadow += 1
                return False
            if s.sg == 0:
                E.ENG.nshadow += 1
                return True
        if so == 0:
            try:
                n, _ = ratform(s.e)
            except ValueError:
                return SBool(s.e == 0)
            n = som(n)
            if z3.is_rational_value(n):
                r = n.as_fraction() == 0
                s.sg = 0 if r else s.sg
                return r
            sn = poly_sign(n, E.ENG.posvars)
            if sn in (1, -1):
                E.ENG.nshadow += 1
                return False
            r = SBool(n == 0)
            return r
        try:
            return sym_equal(s.e, lo)
        except ValueError:
            return SBool(s.e == lo)

    def __ne__(s, o):
        return _neg(s.__eq__(o))

    def _cmp(s, o, op, name):
        if _inf(o):
            pos = o > 0
            return {"lt": pos, "le": pos, "gt": not pos, "ge": not pos}[name]
        so = sgn_of(o)
        ss = s.sg
        if ss is not None and so is not None and (ss != so or ss == 0):
            E.ENG.nshadow += 1
            return {"lt": ss < so, "le": ss <= so, "gt": ss > so, "ge": ss >= so}[name]
        if so == 0 and ss is None:
            ks = s._known_sign()
            if ks is not None:
                E.ENG.nshadow += 1
                return {"lt": ks < 0, "le": ks <= 0, "gt": ks > 0, "ge": ks >= 0}[name]
        lo = lift(o)
        # decide on the normalised difference where possible
        try:
            n, d = ratform(s.e - lo)
            pv = E.ENG.posvars
            sn, sd = poly_sign(n, pv), poly_sign(d, pv)
            if sn is not None and sd in (1, -1):
                E.ENG.nshadow += 1
                v = sn * sd
                return {"lt": v < 0, "le": v <= 0, "gt": v > 0, "ge": v >= 0}[name]
        except ValueError:
            pass
        return SBool(op(s.e, lo))

    def __lt__(s, o):
        return s._cmp(o, lambda a, b: a < b, "lt")

    def __le__(s, o):
        # tolerance-cut policy for `abs(x - y) <= tol` with a tiny float tolerance
        if s.absof is not None and isinstance(o, float) and 0 < o <= 1e-6:
            inner = s.absof
            if bool(inner == 0):
                return True
            t = z3.RealVal(str(Fraction(o)))
            E.ENG.assume_cut(z3.Or(inner.e > t, inner.e < -t))
            return False
        return s._cmp(o, lambda a, b: a <= b, "le")

    def __gt__(s, o):
        return s._cmp(o, lambda a, b: a > b, "gt")

    def __ge__(s, o):
        return s._cmp(o, lambda a, b: a >= b, "ge")

    def __hash__(s):
        return 0

    def __bool__(s):
        return bool(s != 0)

    def __float__(s):
        raise TypeError("symbolic value reached a float() boundary")

    # numpy ufuncs on objects dispatch to methods of the same name (np.log(x) -> x.log()):
    # transcendental functions are uninterpreted for the solver.
    def log(s):
        return LogNum(s)

    def exp(s):
        return SNum(UF_EXP(s.e), 1)

    def log1p(s):
        return LogNum(1 + s)

    def expm1(s):
        return SNum(UF_EXP(s.e) - 1, None)

    def log2(s):
        return SNum(UF_LOG2(s.e), None)

    def __repr__(s):
        return f"<{z3.simplify(s.e)}>"


class LogNum:
    """A symbolic real given as log(r) for a positive real term r (an SNum): the exact model of the log-domain.
    log/exp are mutually inverse monotone bijections between R and (0, inf), so
        log r1 + log r2 = log(r1 r2),  -log r = log(1/r),  exp(log r) = r,  log r1 < log r2 <=> r1 < r2.
    With scores of this type the Log semiring's own methods (np.log, np.exp, np.log1p through the
    method-dispatch of numpy ufuncs on objects) compute rational functions that z3 can decide."""

    __slots__ = ("r",)

    def __init__(self, r):
        self.r = r  # SNum or positive python number

    @staticmethod
    def _r(o):
        if isinstance(o, LogNum):
            return o.r
        if isinstance(o, (int, float)) and not isinstance(o, bool):
            if o == float("-inf"):
                return 0
            if o == float("inf"):
                raise TypeError("+inf in the log domain")
            import math

            return Fraction(math.exp(o)) if o != 0 else 1
        raise TypeError(type(o))

    def __add__(s, o):
        return LogNum(s.r * LogNum._r(o))

    __radd__ = __add__

    def __sub__(s, o):
        return LogNum(s.r / LogNum._r(o))

    def __rsub__(s, o):
        return LogNum(LogNum._r(o) / s.r)

    def __neg__(s):
        return LogNum(1 / s.r)

    def exp(s):
        return s.r

    def expm1(s):
        return s.r - 1

    def __eq__(s, o):
        try:
            return s.r == LogNum._r(o)
        except TypeError:
            return False

    def __ne__(s, o):
        return _neg(s.__eq__(o))

    def __lt__(s, o):
        return s.r < LogNum._r(o)

    def __le__(s, o):
        return s.r <= LogNum._r(o)

    def __gt__(s, o):
        return s.r > LogNum._r(o)

    def __ge__(s, o):
        return s.r >= LogNum._r(o)

    def __hash__(s):
        return 0

    def __repr__(s):
        return f"log({s.r!r})"


UF_LOG = z3.Function("log", z3.RealSort(), z3.RealSort())
UF_EXP = z3.Function("exp", z3.RealSort(), z3.RealSort())
UF_LOG2 = z3.Function("log2", z3.RealSort(), z3.RealSort())


# --------------------------------------------------------------------------------------
# concrete twin of SW
# --------------------------------------------------------------------------------------
class QW(Semiring):
    __slots__ = ()

    def __init__(self, x):
        self.score = Fraction(x)

    @classmethod
    def chart(cls, *args, **kwargs):
        return CHART_FACTORY[0](cls, *args, **kwargs)

    def __add__(s, o):
        if not isinstance(o, QW):
            return NotImplemented
        return QW(s.score + o.score)

    def __mul__(s, o):
        if not isinstance(o, QW):
            return NotImplemented
        return QW(s.score * o.score)

    def star(s):
        if s.score >= 1:
            raise OverflowError("star of a value >= 1 (divergent series)")
        return QW(1 / (1 - s.score))

    def __eq__(s, o):
        return isinstance(o, QW) and s.score == o.score

    def __ne__(s, o):
        return not s.__eq__(o)

    __hash__ = None

    def __repr__(s):
        return f"{s.score}"


QW.zero = QW(0)
QW.one = QW(1)


# --------------------------------------------------------------------------------------
# Domains: one harness body runs symbolically (z3) or concretely (Fractions)
# --------------------------------------------------------------------------------------
class Domain:
    symbolic = True


class SymSW(Domain):
    """Symbolic user semiring."""

    symbolic = True
    R = SW
    name = "SW"

    def __init__(self, prefix="w"):
        self.prefix = prefix
        self.vars = {}

    def zvar(self, k):
        v = self.vars.get(k)
        if v is None:
            v = self.vars[k] = z3.Real(f"{self.prefix}{k}")
        return v

    fixed = {}

    def _present(self, k, v, positive):
        "zero / non-zero pattern of weight k: fixed by the job, always present, or an eager fork"
        f = self.fixed.get(str(k), self.fixed.get(k))
        if f is not None:
            E.ENG._assert(v > 0 if f else v == 0)
            return bool(f)
        if positive:
            E.ENG._assert(v > 0)
            return True
        if E.ENG.fork_free(v == 0):
            return False
        E.ENG._assert(v > 0)
        return True

    def var(self, k, positive=False):
        "free weight in [0, inf): eager fork on zero (unless declared always present)"
        v = self.zvar(k)
        if not self._present(k, v, positive):
            return SW.zero
        E.ENG.posvars.add(v.get_id())
        return SW(v, True)

    def const(self, x):
        if x == 0:
            return SW.zero
        if x == 1:
            return SW.one
        return SW(z3.RealVal(str(Fraction(x))), True if x > 0 else None)

    def term(self, w):
        "z3 term of a value of this domain"
        if isinstance(w, SW):
            return w.score
        raise HarnessError(f"not an SW value: {w!r} ({type(w).__name__})")

    # number adapter for oracles
    def ovar(self, k, present):
        "the oracle's view of weight k on the current path"
        return self.zvar(k) if present else z3.RealVal(0)

    def is_zero_weight(self, w):
        return w.nz is False

    def wrap(self, term, positive=True):
        "a value of the domain from a z3 term (used by summaries)"
        return SW(term, True if positive else None)


class SymNum(Domain):
    """Symbolic plain numbers for the Float-style APIs."""

    symbolic = True
    name = "SNum"

    def __init__(self, prefix="w"):
        self.prefix = prefix
        self.vars = {}
        from genlm.grammar.semiring import Float

        self.R = Float

    zvar = SymSW.zvar

    fixed = {}
    _present = SymSW._present

    def var(self, k, positive=False):
        v = self.zvar(k)
        if not self._present(k, v, positive):
            return 0
        E.ENG.posvars.add(v.get_id())
        return SNum(v, 1)

    def svar(self, k):
        "free real of unknown sign (no eager fork)"
        return SNum(self.zvar(k), None)

    def const(self, x):
        return x

    def term(self, w):
        if isinstance(w, SNum):
            return w.e
        return lift(w)

    zero = z3.RealVal(0)
    one = z3.RealVal(1)
    ovar = SymSW.ovar

    def is_zero_weight(self, w):
        return not isinstance(w, SNum) and w == 0

    def wrap(self, term, positive=True):
        return SNum(term, 1 if positive else None)


class ConcSW(Domain):
    """Concrete replay twin of SymSW."""

    symbolic = False
    R = QW
    name = "QW"

    def __init__(self, values):
        self.values = {k: Fraction(v) for k, v in values.items()}

    def var(self, k, positive=False):
        return QW(self.values.get(k, Fraction(0)))

    def const(self, x):
        return QW(x)

    def term(self, w):
        if isinstance(w, QW):
            return w.score
        raise HarnessError(f"not a QW value: {w!r} ({type(w).__name__})")

    zero = Fraction(0)
    one = Fraction(1)

    def ovar(self, k, present=True):
        return self.values.get(k, Fraction(0))

    def is_zero_weight(self, w):
        return w.score == 0

    def wrap(self, term, positive=True):
        return QW(term)


class ConcNum(Domain):
    """Concrete replay twin of SymNum: Fractions as Float weights."""

    symbolic = False
    name = "Fraction"

    def __init__(self, values):
        self.values = {k: Fraction(v) for k, v in values.items()}
        from genlm.grammar.semiring import Float

        self.R = Float

    def var(self, k, positive=False):
        v = self.values.get(k, Fraction(0))
        return 0 if v == 0 else v

    svar = var

    def const(self, x):
        return x

    def term(self, w):
        return Fraction(w)

    zero = Fraction(0)
    one = Fraction(1)
    ovar = ConcSW.ovar

    def is_zero_weight(self, w):
        return w == 0

    def wrap(self, term, positive=True):
        return Fraction(term)


# --------------------------------------------------------------------------------------
# SM: a NON-COMMUTATIVE symbolic semiring (2x2 real matrices) for the graph / automaton code,
# which claims to work over closed semirings in general.  star is defined on the zero matrix only,
# so it is used on acyclic inputs.
# --------------------------------------------------------------------------------------
class SM(Semiring):
    __slots__ = ("nz",)

    def __init__(self, entries, nz=None):
        self.score = tuple(entries)
        self.nz = nz

    @classmethod
    def chart(cls, *args, **kwargs):
        return CHART_FACTORY[0](cls, *args, **kwargs)

    def __add__(s, o):
        if not isinstance(o, SM):
            return NotImplemented
        if o.nz is False:
            return s
        if s.nz is False:
            return o
        return SM([a + b for a, b in zip(s.score, o.score)], True if (s.nz and o.nz) else None)

    def __mul__(s, o):
        if not isinstance(o, SM):
            return NotImplemented
        if s.nz is False or o.nz is False:
            return SM.zero
        if s is SM.one:
            return o
        if o is SM.one:
            return s
        a, b, c, d = s.score
        e, f, g, h = o.score
        return SM([a * e + b * g, a * f + b * h, c * e + d * g, c * f + d * h], True if (s.nz and o.nz) else None)

    def star(s):
        "(I - M)^{-1} of a 2x2 matrix, the sum of its powers when the spectral radius is below one"
        if s.nz is False:
            return SM.one
        a, b, c, d = s.score
        det = (1 - a) * (1 - d) - b * c
        E.ENG.star_args.append(a)
        E.ENG.hypothesis(1 - a > 0)
        E.ENG.hypothesis(det > 0)
        return SM([(1 - d) / det, b / det, c / det, (1 - a) / det], True)

    def _eq(s, o):
        if s is o:
            return True
        if s.nz is not None and o.nz is not None and s.nz != o.nz:
            E.ENG.nshadow += 1
            return False
        if s.nz is False and o.nz is False:
            return True
        res = True
        for a, b in zip(s.score, o.score):
            r = sym_equal(a, b)
            if r is False:
                return False
            if r is not True:
                if not bool(r):
                    return False
        return res

    def __eq__(s, o):
        return isinstance(o, SM) and s._eq(o)

    def __ne__(s, o):
        return not s.__eq__(o)

    def metric(s, o):
        return s.__ne__(o)

    __hash__ = None

    def __repr__(s):
        return f"<[{', '.join(str(z3.simplify(x)) for x in s.score)}]>"


SM.zero = SM([z3.RealVal(0)] * 4, False)
SM.one = SM([z3.RealVal(1), z3.RealVal(0), z3.RealVal(0), z3.RealVal(1)], None)


class QM(Semiring):
    "concrete twin of SM over Fractions"
    __slots__ = ()

    def __init__(self, entries):
        self.score = tuple(Fraction(x) for x in entries)

    @classmethod
    def chart(cls, *args, **kwargs):
        return CHART_FACTORY[0](cls, *args, **kwargs)

    def __add__(s, o):
        return QM([a + b for a, b in zip(s.score, o.score)]) if isinstance(o, QM) else NotImplemented

    def __mul__(s, o):
        if not isinstance(o, QM):
            return NotImplemented
        a, b, c, d = s.score
        e, f, g, h = o.score
        return QM([a * e + b * g, a * f + b * h, c * e + d * g, c * f + d * h])

    def star(s):
        a, b, c, d = s.score
        det = (1 - a) * (1 - d) - b * c
        if not (1 - a > 0 and det > 0):
            raise OverflowError("star of a matrix with spectral radius >= 1")
        return QM([(1 - d) / det, b / det, c / det, (1 - a) / det])

    def __eq__(s, o):
        return isinstance(o, QM) and s.score == o.score

    def __ne__(s, o):
        return not s.__eq__(o)

    __hash__ = None


QM.zero = QM([0, 0, 0, 0])
QM.one = QM([1, 0, 0, 1])


class MatNum:
    "oracle number adapter for 2x2 matrices (tuples of four numbers); add/mul only"

    def __init__(self, symbolic):
        from .oracle import Num

        self.s = Num(symbolic)
        self.symbolic = symbolic
        z, o = self.s.zero, self.s.one
        self.zero = (z, z, z, z)
        self.one = (o, z, z, o)

    def is_zero(self, a):
        from .oracle import is_zero

        return all(is_zero(x) for x in a)

    def add(self, a, b):
        return tuple(self.s.add(x, y) for x, y in zip(a, b))

    def mul(self, a, b):
        s = self.s
        a1, b1, c1, d1 = a
        e, f, g, h = b
        return (s.add(s.mul(a1, e), s.mul(b1, g)), s.add(s.mul(a1, f), s.mul(b1, h)),
                s.add(s.mul(c1, e), s.mul(d1, g)), s.add(s.mul(c1, f), s.mul(d1, h)))

    def sum(self, xs):
        r = self.zero
        for x in xs:
            r = self.add(r, x)
        return r

    def prod(self, xs):
        r = self.one
        for x in xs:
            r = self.mul(r, x)
        return r


class SymSM(Domain):
    symbolic = True
    R = SM
    name = "SM"
    fixed = {}
    matrix = True

    def __init__(self):
        self.vars = {}

    def zvar(self, k):
        v = self.vars.get(k)
        if v is None:
            v = self.vars[k] = z3.Real(f"m{k}")
        return v

    def var(self, k, positive=False):
        "a free matrix weight: zero, or four positive entries m{4k}..m{4k+3}"
        f = self.fixed.get(str(k))
        present = bool(f) if f is not None else (True if positive else not E.ENG.fork_free(z3.Bool(f"absent{k}")))
        if not present:
            for i in range(4):
                E.ENG._assert(self.zvar(4 * k + i) == 0)
            return SM.zero
        es = []
        for i in range(4):
            v = self.zvar(4 * k + i)
            E.ENG._assert(v > 0)
            E.ENG.posvars.add(v.get_id())
            es.append(v)
        return SM(es, True)

    def const(self, x):
        return SM.zero if x == 0 else SM.one

    def term(self, w):
        if isinstance(w, SM):
            return tuple(w.score)
        raise HarnessError(f"not an SM value: {w!r}")

    def is_zero_weight(self, w):
        return w.nz is False

    def num(self):
        return MatNum(True)


class ConcSM(Domain):
    symbolic = False
    R = QM
    name = "QM"
    matrix = True

    def __init__(self, values):
        self.values = {int(k): Fraction(v) for k, v in values.items()}

    def var(self, k, positive=False):
        return QM([self.values.get(4 * k + i, Fraction(0)) for i in range(4)])

    def const(self, x):
        return QM.zero if x == 0 else QM.one

    def term(self, w):
        if isinstance(w, QM):
            return tuple(w.score)
        raise HarnessError(f"not a QM value: {w!r}")

    def is_zero_weight(self, w):
        return not any(w.score)

    def num(self):
        return MatNum(False)
