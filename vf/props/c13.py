"""C13 Determinisation, minimisation, pushing and trimming preserve the language."""
import itertools

from .. import oracle as O
from ..build import automaton, automaton_weights, machine_view, make_wfsa, oracle_machine
from ..core import case, split_job
from ..shapes import EPS, all_strings


def _longest(sk):
    # number of non-epsilon symbols on the longest path of an acyclic skeleton (+1 for completeness)
    n = len({s for (i, _, j) in sk.arcs for s in (i, j)})
    return n


def _structure_det(ctx, tag, m):
    "single initial state, at most one arc per (state, symbol), no epsilon arcs"
    D = ctx.D
    inits = [q for q, w in m.start.items() if not D.is_zero_weight(w)]
    ctx.check(f"{tag}: at most one initial state", len(inits) <= 1, detail=str(inits)[:100], sig=f"{tag}:initial-states")
    seen = {}
    dup = []
    eps = []
    for i, a, j, w in m.arcs():
        if D.is_zero_weight(w):
            continue
        if a == EPS:
            eps.append((i, j))
        if (i, a) in seen and seen[i, a] != j:
            dup.append((i, a))
        seen[i, a] = j
    ctx.check(f"{tag}: at most one arc per state and symbol", not dup, detail=str(dup)[:100], sig=f"{tag}:nondeterministic")
    ctx.check(f"{tag}: no epsilon arcs", not eps, detail=str(eps)[:100], sig=f"{tag}:epsilon-arc")


def _live_states(ctx, m, structural=False):
    """states on an accepting path (Boolean).  structural=True: every arc / initial / final entry counts,
    whatever its weight -- the documented meaning of the coarse `trim`."""
    D = ctx.D
    if structural:
        arcs = [(i, j) for i, a, j, w in m.arcs()]
        acc = set(m.start)
        co = set(m.stop)
        ch = True
        while ch:
            ch = False
            for i, j in arcs:
                if i in acc and j not in acc:
                    acc.add(j)
                    ch = True
                if j in co and i not in co:
                    co.add(i)
                    ch = True
        return acc, co
    arcs = [(i, j) for i, a, j, w in m.arcs() if not D.is_zero_weight(w)]
    acc = {q for q, w in m.start.items() if not D.is_zero_weight(w)}
    ch = True
    while ch:
        ch = False
        for i, j in arcs:
            if i in acc and j not in acc:
                acc.add(j)
                ch = True
    co = {q for q, w in m.stop.items() if not D.is_zero_weight(w)}
    ch = True
    while ch:
        ch = False
        for i, j in arcs:
            if j in co and i not in co:
                co.add(i)
                ch = True
    return acc, co


@case("C13", "ops", domain="SNum")
def ops(ctx):
    from genlm.grammar.semiring import Float

    P = ctx.P
    num = ctx.num
    T = ctx.D.term
    sk = automaton(P["shape"])
    ws = automaton_weights(ctx, sk, always=P.get("always", ()), const=P.get("const"))
    om = oracle_machine(ctx, sk, ws)
    alphabet = sorted({a for (_, a, _) in sk.arcs if a != EPS})
    L = P.get("L", _longest(sk))
    strings = [tuple(x) for x in all_strings(alphabet, L)]
    if P.get("strings") is not None:
        strings = [tuple(x) for x in P["strings"]]
    refs = {}
    for x in strings:
        piv = []
        refs[x] = (O.wfsa_weight(*om, x, num, piv), piv)
    for op in P["ops"]:
        m = make_wfsa(ctx, sk, ws, R=Float)
        ok, r = ctx.call(op, lambda: getattr(m, op), sig=f"{op}:exception")
        if not ok:
            continue
        view = machine_view(ctx, r)
        for x in strings:
            ref, piv = refs[x]
            piv2 = []
            got = O.wfsa_weight(*view, x, num, piv2)
            ctx.eq_terms(f"{op}: weight of {x}", got, ref, hyps=[ctx.gt0(p) for p in piv + piv2], sig=f"{op}:{P['shape']}:{''.join(x)}")
        if op in ("determinize", "min_det"):
            _structure_det(ctx, op, r)
        if op == "push":
            acc, co = _live_states(ctx, r)
            for q in sorted(acc & co, key=repr):
                tot = T(r.stop[q]) if q in r.stop else num.zero
                for a, j, w in r.arcs(q):
                    tot = num.add(tot, T(w))
                ctx.eq_terms(f"push: outgoing mass + final weight of live state {q} is one", tot, num.one, sig=f"push-stochastic:{P['shape']}")
        if op in ("trim", "trim_vals", "min_det"):
            acc, co = _live_states(ctx, r, structural=(op != "trim_vals"))
            states = set(r.states)
            bad = sorted((q for q in states if q not in acc or q not in co), key=repr)
            ctx.check(f"{op}: every remaining state lies on an accepting path", not bad, detail=str(bad)[:120], sig=f"{op}:useless-state")


def jobs(tier, seed):
    out = []
    quick = tier == "quick"
    plan = [("A-DAG2", ["push", "trim", "trim_vals", "determinize"], [0, 1]),
            ("A-DAG", ["push", "trim", "trim_vals"], [0, 1, 2]),
            ("A-DEAD", ["push", "trim", "trim_vals", "determinize", "min_det"], [0]),
            ("A-D3", ["determinize", "min_det"], [0]),
            ("A-D4", ["determinize"], [0, 1]),
            ("A-ISO", ["push", "trim", "trim_vals", "determinize", "min_det"], [])]
    if not quick:
        # min_det on A-D4 (two nested determinisations over frozendict states with symbolic residuals) does not finish: not run
        plan += [("A-D4", ["push", "trim", "trim_vals"], [0, 1]), ("A-CYC", ["determinize", "push", "trim", "trim_vals"], [0]), ("A-DAG", ["determinize"], [0, 1, 2, 3]), ("A-DAG2", ["min_det"], [0, 1, 2]), ("A-S1", ["push", "trim", "trim_vals"], []), ("A-EPS2", ["push", "trim", "trim_vals"], [0])]
    for sh, ops_, bits in plan:
        sk = automaton(sh)
        alw = list(range(len(sk.arcs), sk.K))  # initial/final weights always present; arc weights free
        for op in ops_:
            prm = dict(shape=sh, ops=[op], always=alw)
            if sh == "A-CYC":
                prm["L"] = 5
            if sh == "A-D4":
                prm["const"] = {"4": 1, "5": 3, "6": 2}  # the continuation arcs carry constant weights (states 1 and 2 have different futures): four symbolic residual weights
                prm["L"] = 3  # longest path has two symbols
            js = split_job(dict(case="ops", params=prm, timeout=900), bits)
            if quick and sh == "A-DAG2" and op == "determinize":
                # the sub-shape with all six arcs present blows the normaliser up (thorough tier, counted inconclusive there)
                for j in js:
                    j["params"]["fixed"]["5"] = 0
            out += js
    out.append(dict(case="ops", params=dict(shape="A-D3", ops=["push"], always=[3, 4], canary=True)))
    seeds = [1 + seed % 1000] if quick else [0, 1 + seed % 1000]
    return [dict(j, hashseed=s) for j in out for s in (seeds if not j["params"].get("canary") else seeds[:1])]


INFO = dict(
    level="other",
    level_text="Bounded symbolic verification with small bounds: push, trim, trim_vals, determinize and min_det run on acyclic automaton skeletons "
               "(shared prefixes, epsilon arc, several initial states, dead and unreachable states, unequal weights) with symbolic Float weights; "
               "determinize's frozendict look-ups compare residual weights, i.e. symbolic equalities decided by normalisation/z3. z3 proves language "
               "equality for every string up to the longest path (+1), complete for an acyclic machine, for all weights; plus determinism, no "
               "epsilon arcs, a single initial state, stochastic form after push, and only useful states after trimming.",
    level_note="<= 6 symbolic arc weights for determinize, <= 4 for min_det (denominators nest); cyclic machines only for push/trim in the thorough tier. "
               "Floats are reals.",
    design_ref="DESIGN.md section 3 C13",
    explanation="Real determinize/min_det/push/trim on symbolic weights; result evaluated by the path-sum oracle; z3 proves language equality and structural facts.",
    bounds=dict(quick=dict(skeletons=["A-DAG2", "A-DAG", "A-DEAD", "A-D3"]), thorough=dict(skeletons=6)),
    outside=["cyclic machines for determinize/min_det except A-CYC", "min_det on A-D4 (does not finish)", "more than 6 symbolic weights", "IEEE rounding"],
    assumptions=["weights >= 0"],
)

INFO["technique"] = 'symbolic execution of push/trim/determinize/min_det with z3 real weights (symbolic equalities between residual weights decide the subset construction); z3 proves language equality up to the longest path; bounded'
