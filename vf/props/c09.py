"""C09 Grammar-transducer composition is relational composition."""
import itertools

from .. import oracle as O
from .. import stubs
from ..build import automaton, automaton_weights, cfg_rules, grammar, grammar_weights, make_cfg, make_fst, make_wfsa, oracle_machine, oracle_rules, transducer
from ..core import case, split_job
from ..shapes import EPS, all_strings
from .c08 import _acyclic_generating, _max_yield


def _x_bound(ctx, orules, sk, om, y, tape):
    "bound on |x| such that G(x) T(x,y) can be non-zero; None if infinitely many x matter"
    fin, good = _acyclic_generating(orules, sk.V)
    b1 = _max_yield(good, sk.V, sk.S) if fin else None
    b2 = O.max_len_other_tape(*om, y, tape)
    bs = [b for b in (b1, b2) if b is not None]
    return min(bs) if bs else None


@case("C09", "compose", domain="SW")
def compose(ctx):
    P = ctx.P
    num = ctx.num
    sk = grammar(P["shape"])
    F = transducer(P["fst"])
    ws = grammar_weights(ctx, sk)
    wf = automaton_weights(ctx, F, offset=sk.K, always=P.get("always_f", ()))
    orules = oracle_rules(ctx, sk, ws)
    om = oracle_machine(ctx, F, wf)
    order = P.get("order", "cfg@fst")
    with stubs.agenda_summary(ctx, when=lambda g: not stubs.finite_system(g)):
        g = make_cfg(ctx, sk, ws)
        f = make_fst(ctx, F, wf)
        if order == "cfg@fst":
            ok, c = ctx.call("cfg @ fst", lambda: g @ f, sig="cfg@fst:exception")
            tape = 1  # y is on the transducer's output tape
        else:
            # fst @ cfg relates x to y with T(x, y) G(y): the grammar sits on the output side
            ok, c = ctx.call("fst @ cfg", lambda: f @ g, sig="fst@cfg:exception")
            tape = 0
        if not ok:
            return
        crules = cfg_rules(ctx, c)
        crules_cache = {}
        out_alph = sorted({ab[tape] for (_, ab, _) in F.arcs if ab[tape] != EPS})
        for y in [tuple(s) for s in P["strings"]]:
            if any(t not in out_alph for t in y):
                continue
            bound = _x_bound(ctx, orules, sk, om, y, tape)
            if bound is None:
                ctx.oob(f"y={y}", "infinitely many inputs contribute")
                continue
            piv = []
            ref = num.zero
            try:
                for n in range(max(bound, 0) + 1):
                    for x in itertools.product(sorted(sk.V, key=repr), repeat=n):
                        gx = O.string_weight(orules, sk.V, sk.S, x, num, piv)
                        if O.is_zero(gx):
                            continue
                        t = O.fst_weight(*om, x, y, num, piv) if tape == 1 else O.fst_weight(*om, y, x, num, piv)
                        ref = num.add(ref, num.mul(gx, t))
            except O.OutOfBounds as e:
                ctx.oob(f"y={y}", str(e))
                continue
            piv2 = []
            okr, got = ctx.ref(f"oracle on the composed grammar {y}", O.string_weight, crules, set(c.V), c.S, y, num, piv2)
            if okr:
                ctx.eq_terms(f"({order})({y}) = sum_x G(x) T(x,y)", got, ref, hyps=[ctx.gt0(p) for p in piv + piv2], sig=f"{order}:{P['shape']}:{P['fst']}:{''.join(map(str, y))}")
            # a further operation on the composed grammar: truncation keeps exactly the strings within the bound
            for tn in P.get("truncate_after", []):
                if (tn, "built") not in crules_cache:
                    okt, tg = ctx.call(f"({order}).truncate_length({tn})", c.truncate_length, tn, sig=f"{order}:truncate_after:exception")
                    crules_cache[tn, "built"] = (okt, cfg_rules(ctx, tg) if okt else None, tg if okt else None)
                okt, trules, tg = crules_cache[tn, "built"]
                if okt:
                    p3 = []
                    okr3, got3 = ctx.ref("oracle truncated", O.string_weight, trules, set(tg.V), tg.S, y, num, p3)
                    if okr3:
                        ctx.eq_terms(f"({order}).truncate_length({tn})({y})", got3, ref if len(y) <= tn else num.zero, hyps=[ctx.gt0(p) for p in piv + p3],
                                     sig=f"{order}:truncate_after:{P['shape']}:{P['fst']}:{''.join(map(str, y))}")
            if P.get("call") and len(y) <= 1:
                okc, v = ctx.call(f"({order})({y}) real call", c, y, sig=f"{order}:call:exception")
                if okc:
                    ctx.eq(f"({order})({y}) real call", v, ref, pivots=piv, sig=f"{order}:call:{P['shape']}:{P['fst']}:{''.join(map(str, y))}")


@case("C09", "pointwise", domain="SW")
def pointwise(ctx):
    """cfg @ string, cfg @ acceptor, truncate_length"""
    P = ctx.P
    num = ctx.num
    sk = grammar(P["shape"])
    ws = grammar_weights(ctx, sk)
    orules = oracle_rules(ctx, sk, ws)
    strings = [tuple(s) for s in P["strings"]]
    with stubs.agenda_summary(ctx, when=lambda g: not stubs.finite_system(g)):
        for x in strings:
            piv = []
            okr, ref = ctx.ref(f"oracle {x}", O.string_weight, orules, sk.V, sk.S, x, num, piv)
            if not okr:
                continue
            g = make_cfg(ctx, sk, ws)
            okc, v = ctx.call(f"(cfg @ {x}).treesum()", lambda: (g @ x).treesum(), sig="cfg@string:exception")
            if okc:
                ctx.eq(f"(cfg @ {x}).treesum() = cfg({x})", v, ref, pivots=piv, sig=f"cfg@string:{P['shape']}:{''.join(map(str, x))}")
        for n in P.get("truncate", []):
            g = make_cfg(ctx, sk, ws)
            okc, t = ctx.call(f"truncate_length({n})", g.truncate_length, n, sig="truncate_length:exception")
            if not okc:
                continue
            trules = cfg_rules(ctx, t)
            for x in strings:
                piv, piv2 = [], []
                okr, ref = ctx.ref(f"oracle {x}", O.string_weight, orules, sk.V, sk.S, x, num, piv)
                okr2, got = ctx.ref(f"oracle truncate {x}", O.string_weight, trules, set(t.V), t.S, x, num, piv2)
                if okr and okr2:
                    ctx.eq_terms(f"truncate_length({n})({x})", got, ref if len(x) <= n else num.zero, hyps=[ctx.gt0(p) for p in piv + piv2],
                                 sig=f"truncate:{P['shape']}:{n}:{len(x)}")
        if P.get("acceptor"):
            A = automaton(P["acceptor"])
            wa = automaton_weights(ctx, A, offset=sk.K, always=P.get("always_a", ()))
            oa = oracle_machine(ctx, A, wa)
            g = make_cfg(ctx, sk, ws)
            from genlm.grammar.wfsa import WFSA as FieldWFSA  # to_fst lives on the base class

            m = make_wfsa(ctx, A, wa)
            okc, c = ctx.call("cfg @ acceptor", lambda: g @ m, sig="cfg@acceptor:exception")
            if okc:
                crules = cfg_rules(ctx, c)
                for x in strings:
                    piv, piv2, piv3 = [], [], []
                    okr, gx = ctx.ref("oracle", O.string_weight, orules, sk.V, sk.S, x, num, piv)
                    ax = O.wfsa_weight(*oa, x, num, piv2)
                    okr2, got = ctx.ref("oracle composed", O.string_weight, crules, set(c.V), c.S, x, num, piv3)
                    if okr and okr2:
                        ctx.eq_terms(f"(cfg @ A)({x}) = cfg({x}) A({x})", got, num.mul(gx, ax), hyps=[ctx.gt0(p) for p in piv + piv2 + piv3],
                                     sig=f"cfg@acceptor:{P['shape']}:{P['acceptor']}:{''.join(map(str, x))}")


def jobs(tier, seed):
    out = []
    quick = tier == "quick"
    combos = [("G-FIN", "T-F1", ["cfg@fst"]), ("G-FIN", "T-F2", ["cfg@fst"]), ("G-S1", "T-F3", ["cfg@fst"]), ("G-NU", "T-F1", ["cfg@fst"]), ("G-DUP2", "T-F1", ["cfg@fst"]), ("G-FIN", "T-F5", ["cfg@fst"]), ("G-S1", "T-F5", ["cfg@fst"])]
    if not quick:
        combos += [("G-PAL", "T-F4", ["cfg@fst"]), ("G-LIN", "T-F1", ["cfg@fst"]), ("G-FIN", "T-F3", ["cfg@fst"])]
    for sh, fn, orders in combos:
        sk, F = grammar(sh), transducer(fn)
        outs = sorted({ab[1] for (_, ab, _) in F.arcs if ab[1] != EPS})
        ys = [list(s) for s in all_strings(outs, 2 if quick else 3)]
        af = list(range(len(F.arcs), F.K))
        bits = [0, 1, 2] if sk.K + len(F.arcs) >= 10 else [0, 1]
        out += split_job(dict(case="compose", params=dict(shape=sh, fst=fn, strings=ys, always_f=af, order="cfg@fst", call=True, truncate_after=[2] if sh in ("G-FIN", "G-S1") else [])), bits)
    # grammar on the output side: fst @ cfg  (transducers whose OUTPUT alphabet is the grammar's {a, b})
    # T-F*.T would do, but the real code itself transposes; we use the catalogue machines read backwards
    for sh, fn in ([("G-FIN", "T-R1")] if quick else [("G-FIN", "T-R1"), ("G-NU", "T-R1"), ("G-S1", "T-R1")]):
        sk, F = grammar(sh), transducer(fn)
        ins = sorted({ab[0] for (_, ab, _) in F.arcs if ab[0] != EPS})
        xs = [list(s) for s in all_strings(ins, 2)]
        af = list(range(len(F.arcs), F.K))
        out += split_job(dict(case="compose", params=dict(shape=sh, fst=fn, strings=xs, always_f=af, order="fst@cfg")), [0, 1])
    for sh in (["G-NU", "G-FIN", "G-DUP2"] if quick else ["G-NU", "G-FIN", "G-DUP2", "G-DUP", "G-PAL", "G-UC", "G-NULL3", "G-CAT", "G-INT"]):
        sk = grammar(sh)
        strings = [list(s) for s in all_strings(sk.V, 3)]
        out += split_job(dict(case="pointwise", params=dict(shape=sh, strings=strings, truncate=[0, 2], acceptor="A-S2", always_a=[3, 4, 5])), [0, 1])
    out.append(dict(case="pointwise", params=dict(shape="G-S1", strings=[[], ["a"]], truncate=[1], canary=True)))
    seeds = [1 + seed % 1000] if quick else [0, 1 + seed % 1000]
    return [dict(j, hashseed=s) for j in out for s in (seeds if not j["params"].get("canary") else seeds[:1])]


INFO = dict(
    level="other",
    level_text="Bounded symbolic verification: the real cfg @ fst, fst @ cfg, cfg @ string, cfg @ acceptor and truncate_length run on grammar and "
               "transducer skeletons with symbolic weights (epsilon on either tape, eps:eps arcs and cycles, several initial/final states); the "
               "composed grammar is evaluated by the derivation-sum oracle and z3 proves (cfg@fst)(y) = sum_x G(x) T(x,y) -- the definition -- for all "
               "weights; (cfg @ x).treesum() = cfg(x) runs through the real agenda where the composed system is finite; truncation keeps exactly the "
               "strings within the bound.",
    level_note="The sum over x must be finite for the chosen pair and y (finite language or no deleting cycle), else out of bounds; the infinite case "
               "(prefix transducer) is C03. Assumes pivots > 0.",
    design_ref="DESIGN.md section 3 C09",
    explanation="Real grammar-transducer composition on symbolic weights; composed grammar evaluated by the oracle; z3 proves the relational-composition identity.",
    bounds=dict(quick=dict(pairs=5, outputs="<= 2", pointwise_strings="<= 3"), thorough=dict(pairs=10, outputs="<= 3")),
    stubs=["agenda summary on recursive composed systems"],
    outside=["pairs outside the catalogue", "infinitely many contributing inputs (except the prefix transducer, C03)"],
    assumptions=["weights >= 0", "pivots > 0"],
)

INFO["technique"] = 'symbolic execution of cfg@fst / fst@cfg / cfg@string / truncate_length with z3 real weights; composed grammar evaluated by the oracle; z3 proves sum_x G(x)T(x,y) identity; bounded'
