"""C06 Normal-form transformations preserve the weighted language (and C07: structural postconditions)."""
import itertools

from .. import oracle as O
from ..build import cfg_rules, grammar, grammar_weights, make_cfg, oracle_rules
from ..core import case, split_job
from ..shapes import all_strings

TRANSFORMS = {
    "trim": lambda g: g.trim(),
    "cotrim": lambda g: g.cotrim(),
    "binarize": lambda g: g.binarize(),
    "separate_start": lambda g: g.separate_start(),
    "separate_terminals": lambda g: g.separate_terminals(),
    "nullaryremove": lambda g: g.nullaryremove(),
    "nullaryremove(binarize=False)": lambda g: g.nullaryremove(binarize=False),
    "nullaryremove(trim=False)": lambda g: g.nullaryremove(trim=False),
    "nullaryremove(binarize=False,trim=False)": lambda g: g.nullaryremove(binarize=False, trim=False),
    "unaryremove": lambda g: g.unaryremove(),
    "unarycycleremove": lambda g: g.unarycycleremove(),
    "unarycycleremove(trim=False)": lambda g: g.unarycycleremove(trim=False),
    "cnf": lambda g: g.cnf,
    "rename": lambda g: g.rename(lambda x: ("r", x)),
    "renumber": lambda g: g.renumber(),
    "nullaryremove.unarycycleremove.renumber": lambda g: g.nullaryremove(binarize=True).unarycycleremove().renumber(),
}


def _unary_cycle(rules, V):
    nts = {h for h, _ in rules}
    succ = {}
    for h, b in rules:
        if len(b) == 1 and b[0] not in V:
            succ.setdefault(h, set()).add(b[0])
    # DFS cycle detection
    color = {}

    def dfs(u):
        color[u] = 1
        for v in succ.get(u, ()):
            if color.get(v) == 1:
                return True
            if color.get(v) is None and dfs(v):
                return True
        color[u] = 2
        return False

    return any(color.get(u) is None and dfs(u) for u in list(succ))


def structure(ctx, name, gin, gout, in_rules):
    """C07 postconditions on the output of transformation `name` (concrete per path)."""
    V = set(gout.V)
    S = gout.S
    live = [(r.head, tuple(r.body)) for r in gout.rules if not ctx.D.is_zero_weight(r.w)]
    sig = f"{name}"
    if name == "cnf":
        bad = []
        for h, b in live:
            if len(b) == 0 and h == S:
                continue
            if len(b) == 1 and b[0] in V:
                continue
            if len(b) == 2 and all((y not in V) and y != S for y in b):
                continue
            bad.append((h, b))
        ctx.check(f"{name}: only S->eps, A->a, A->B C with S on no right-hand side", not bad, detail=f"offending rules {bad[:3]}", sig=f"{sig}:cnf-form")
    if name.startswith("nullaryremove") or name == "cnf":
        bad = [(h, b) for h, b in live if len(b) == 0 and h != S]
        ctx.check(f"{name}: no empty rule except at the start symbol", not bad, detail=str(bad[:3]), sig=f"{sig}:nullary-left")
    if name in ("unaryremove", "cnf"):
        bad = [(h, b) for h, b in live if len(b) == 1 and b[0] not in V]
        ctx.check(f"{name}: no unary rule", not bad, detail=str(bad[:3]), sig=f"{sig}:unary-left")
    if name.startswith("unarycycleremove") or name == "nullaryremove.unarycycleremove.renumber":
        ctx.check(f"{name}: no unary cycle", not _unary_cycle(live, V), sig=f"{sig}:unary-cycle-left")
    if name in ("binarize", "cnf", "nullaryremove", "nullaryremove(trim=False)"):
        bad = [(h, b) for h, b in live if len(b) > 2]
        ctx.check(f"{name}: no right-hand side longer than two", not bad, detail=str(bad[:3]), sig=f"{sig}:long-rhs")
    if name in ("separate_start", "cnf") or name.startswith("nullaryremove"):
        bad = [(h, b) for h, b in live if S in b]
        ctx.check(f"{name}: start symbol on no right-hand side", not bad, detail=str(bad[:3]), sig=f"{sig}:start-on-rhs")
    if name in ("separate_terminals", "cnf"):
        bad = [(h, b) for h, b in live if len(b) != 1 and any(y in V for y in b)]
        ctx.check(f"{name}: terminals only in rules A -> a", not bad, detail=str(bad[:3]), sig=f"{sig}:terminal-in-long-rule")
    if name in ("trim", "cnf", "nullaryremove", "nullaryremove(binarize=False)", "unarycycleremove", "nullaryremove.unarycycleremove.renumber"):
        # every remaining symbol derives a terminal string and is reachable from S (in the output grammar);
        # empty language => no rules
        gen = set(V)
        ch = True
        while ch:
            ch = False
            for h, b in live:
                if h not in gen and all(y in gen for y in b):
                    gen.add(h)
                    ch = True
        reach = {S}
        ch = True
        while ch:
            ch = False
            for h, b in live:
                if h in reach:
                    for y in b:
                        if y not in reach:
                            reach.add(y)
                            ch = True
        syms = {h for h, _ in live} | {y for _, b in live for y in b}
        bad = sorted((s for s in syms if s not in gen or s not in reach), key=repr)
        ctx.check(f"{name}: every remaining symbol is reachable from the start symbol and derives a terminal string", not bad,
                  detail=f"useless symbols left: {bad[:4]}", sig=f"{sig}:useless-symbol-left")
        ingen = O.generating_set([(1, h, b) for (w, h, b) in in_rules if not O.is_zero(w)], set(gin.V))
        if gin.S not in ingen:
            ctx.check(f"{name}: empty language trims to the empty rule set", not live, detail=f"{len(live)} rules left: {live[:3]}", sig=f"{sig}:empty-language-rules-left")
    if name == "cotrim":
        gen = O.generating_set([(1, h, b) for h, b in live], V)
        bad = sorted((h for h, _ in live if h not in gen), key=repr)
        ctx.check("cotrim: every remaining nonterminal derives a terminal string", not bad, detail=str(bad[:3]), sig="cotrim:non-generating-left")


def _run(ctx, mode):
    P = ctx.P
    sk = grammar(P["shape"])
    ws = grammar_weights(ctx, sk)
    in_rules = oracle_rules(ctx, sk, ws)
    strings = [tuple(x) for x in P["strings"]]
    num = ctx.num
    refs = {}
    if mode == "language":
        for x in strings:
            piv = []
            ok, r = ctx.ref(f"oracle(input):{x}", O.string_weight, in_rules, sk.V, sk.S, x, num, piv)
            if ok:
                refs[x] = (r, piv)
    names = P["transforms"]
    for name in names:
        if name == "unfold":
            g0 = make_cfg(ctx, sk, ws)
            todo = [(f"unfold({i},{k})", (lambda g, i=i, k=k: g.unfold(i, k)))
                    for i, r in enumerate(g0.rules) for k, y in enumerate(r.body) if y not in sk.V]
        else:
            todo = [(name, TRANSFORMS[name])]
        for tname, T in todo:
            g = make_cfg(ctx, sk, ws)
            # other transformations applied to the SAME grammar object first (their results are discarded):
            # cached state (_trim_cache, cached properties) must not leak into the next answer
            pre_ok = True
            for pname in P.get("pre", []):
                okp, _ = ctx.call(f"{pname} (before {tname})", TRANSFORMS[pname], g, sig=f"{pname.split('(')[0]}:exception")
                pre_ok = pre_ok and okp
            if P.get("pre"):
                tname = f"{'+'.join(P['pre'])} then {tname}"
            ok, out = ctx.call(f"{tname}", T, g, sig=f"{tname.split('(')[0]}:exception")
            if not ok:
                continue
            if mode == "structure":
                structure(ctx, tname.split(" then ")[-1], g, out, in_rules)
                continue
            orules = cfg_rules(ctx, out)
            for x in strings:
                if x not in refs:
                    continue
                r, piv = refs[x]
                piv2 = []
                ok2, got = ctx.ref(f"oracle({tname}):{x}", O.string_weight, orules, set(out.V), out.S, x, num, piv2)
                if ok2:
                    ctx.eq_terms(f"{tname}: weight of {x}", got, r, hyps=[ctx.gt0(p) for p in piv + piv2],
                                 sig=f"{tname.split('(')[0] if tname.startswith('unfold') else tname}:{P['shape']}:{''.join(x)}")


@case("C06", "language", domain="SW")
def language(ctx):
    _run(ctx, "language")


ALL_T = list(TRANSFORMS) + ["unfold"]


def jobs(tier, seed, mode="language"):
    out = []
    quick = tier == "quick"
    L = 3 if quick else 4
    shapes = ["G-NU", "G-UC", "G-NULL3", "G-DUP", "G-DUP2", "G-HEADLESS", "G-NB", "G-FIN", "G-2CYC"] if quick else ["G-NU", "G-UC", "G-NULL3", "G-DUP", "G-DUP2", "G-HEADLESS", "G-NUC", "G-CAT", "G-LR", "G-DEAD", "G-TRI", "G-PAL", "G-MUT"]
    groups = [["trim", "cotrim", "binarize", "separate_start", "separate_terminals", "rename", "renumber"],
              ["nullaryremove", "nullaryremove(binarize=False)"],
              ["nullaryremove(trim=False)", "nullaryremove(binarize=False,trim=False)"],
              ["unaryremove", "unarycycleremove", "unarycycleremove(trim=False)"],
              ["cnf"], ["nullaryremove.unarycycleremove.renumber"], ["unfold"]]
    for sh in shapes:
        sk = grammar(sh)
        strings = [list(x) for x in all_strings(sk.V, L)]
        if quick:
            strings = strings[:15]
        for gidx, grp in enumerate(groups):
            bits = [0, 1] if sk.K >= 7 else [0]
            out += split_job(dict(case=mode, params=dict(shape=sh, strings=strings if mode == "language" else [], transforms=grp)), bits)
    # sequences on one object: a transformation applied after others on the same grammar object
    for sh in (["G-DUP", "G-NU"] if quick else ["G-DUP", "G-NU", "G-DEAD", "G-UC", "G-NULL3"]):
        sk = grammar(sh)
        strings = [list(x) for x in all_strings(sk.V, 2)]
        for pre in (["cotrim"], ["trim"], ["cnf"], ["nullaryremove", "unarycycleremove"]):
            out += split_job(dict(case=mode, params=dict(shape=sh, strings=strings if mode == "language" else [], pre=pre,
                                                         transforms=["trim", "cotrim", "cnf", "nullaryremove", "unaryremove", "unarycycleremove"])), [0, 1] if sk.K >= 7 else [0])
    out.append(dict(case=mode, params=dict(shape="G-S1", strings=[[], ["a"], ["a", "a"]], transforms=["cnf", "trim"], canary=True)))
    seeds = [1 + seed % 1000] if quick else [0, 1 + seed % 1000]
    return [dict(j, hashseed=s) for j in out for s in (seeds if not j["params"].get("canary") else seeds[:1])]


INFO = dict(
    level="other",
    level_text="Bounded symbolic verification: every transformation (trim, cotrim, binarize, separate_start, separate_terminals, nullaryremove with "
               "all flag combinations, unaryremove, unarycycleremove(trim=+-), cnf, rename, renumber, unfold(i,k) for every admissible (i,k), and the "
               "Earley preprocessing chain) runs on grammar skeletons with symbolic rule weights (each may be zero); input and output grammar are BOTH "
               "evaluated by the independent derivation-sum oracle and z3 proves equality of every string's weight for all weight valuations. A second "
               "family of jobs applies each transformation AFTER other transformations on the same grammar object (cached trims and cached properties).",
    level_note="Cyclic unary/nullable parts by Cramer (pivots > 0 assumed); non-linear nullable recursion is out of bounds. Trusted: CPython, z3, SW proxy, oracle.",
    design_ref="DESIGN.md section 3 C06",
    explanation="Real grammar transformations on symbolic weights; both sides evaluated by the oracle; z3 proves language equality per string for all weights.",
    bounds=dict(quick=dict(strings="<= 3 (15 per skeleton)", skeletons=["G-NU", "G-UC", "G-NULL3", "G-DUP"]), thorough=dict(strings="<= 4", skeletons=10)),
    outside=["strings beyond the bound", "non-linear nullable recursion", "shapes outside the catalogue"],
    assumptions=["weights >= 0", "pivots > 0"],
)

INFO["technique"] = 'symbolic execution of every grammar transformation with z3 real weights; input and output both evaluated by the derivation-sum oracle; z3 proves language equality per string; bounded'
