"""C08 Total weights are the least solution of the grammar equations."""
import itertools

from .. import engine as E
from .. import oracle as O
from .. import stubs
from ..build import grammar, grammar_weights, make_cfg, oracle_rules
from ..core import case, split_job


def _acyclic_generating(rules, V):
    "finite number of derivation trees? (dependency graph of the generating part is acyclic)"
    live = [(h, b) for (w, h, b) in rules if not O.is_zero(w)]
    gen = O.generating_set([(1, h, b) for h, b in live], V)
    good = [(h, b) for h, b in live if h in gen and all(y in gen for y in b)]
    dep = {}
    for h, b in good:
        dep.setdefault(h, set()).update(y for y in b if y not in V)
    for comp in O.sccs(list(dep), lambda x: dep.get(x, ())):
        if len(comp) > 1 or comp[0] in dep.get(comp[0], ()):
            return False, good
    return True, good


def _max_yield(good, V, S):
    memo = {}

    def m(X):
        if X in V:
            return 1
        if X not in memo:
            memo[X] = max((sum(m(y) for y in b) for h, b in good if h == X), default=-10**6)
        return memo[X]

    return m(S)


@case("C08", "acyclic", domain="SW")
def acyclic(ctx):
    """(a) exact on systems with finitely many derivations: agenda (all pop orders), naive_bottom_up, treesum."""
    P = ctx.P
    sk = grammar(P["shape"])
    ws = grammar_weights(ctx, sk)
    orules = oracle_rules(ctx, sk, ws)
    num = ctx.num
    fin, good = _acyclic_generating(orules, sk.V)
    if P.get("chart", "real") == "real":
        # (c) block order compatible with the dependencies -- on every sub-shape, recursive ones included, and under
        # several namings of the nonterminals (the DFS of the SCC decomposition follows set-iteration order)
        for rn in P.get("renames", [None]):
            ren = None
            if rn:
                mp = dict((a, tuple(b) if isinstance(b, list) else b) for a, b in rn)
                ren = lambda x, mp=mp: mp.get(x, x)
            g = make_cfg(ctx, sk, ws, rename=ren)
            deps = g.dependency_graph()
            bucket = deps.buckets
            bad = [(r.head, y) for r in g.rules for y in r.body if bucket[r.head] > bucket[y]]
            ctx.check(f"dependency blocks: a rule's head is never in a later block than its body symbols (naming {rn})", not bad, detail=str(bad[:3]), sig="blocks:order")
            comps = {frozenset(c) for c in O.sccs(sorted(deps.N, key=repr), lambda x: [y for (h, y) in deps.E if h == x])}
            ctx.check(f"dependency blocks are exactly the SCCs (naming {rn})", {frozenset(b) for b in deps.blocks} == comps,
                      detail=f"blocks {[sorted(map(str, b)) for b in deps.blocks]}", sig="blocks:sccs")
        g = make_cfg(ctx, sk, ws)
        deps = g.dependency_graph()
        bucket = deps.buckets
        bad = [(r.head, y) for r in g.rules for y in r.body if bucket[r.head] > bucket[y]]
        ctx.check("dependency blocks: a rule's head is never in a later block than its body symbols", not bad, detail=str(bad[:3]), sig="blocks:order")
        comps = {frozenset(c) for c in O.sccs(sorted(deps.N, key=repr), lambda x: [y for (h, y) in deps.E if h == x])}
        ctx.check("dependency blocks are exactly the SCCs", {frozenset(b) for b in deps.blocks} == comps,
                  detail=f"blocks {sorted(map(sorted, map(lambda b: list(map(str, b)), deps.blocks)))}", sig="blocks:sccs")
    if not fin:
        ctx.oob("recursive sub-shape", "handled by the inductive-step case")
        return
    piv = []
    Z = O.treesums(orules, sk.V, num, piv)
    nts = sorted({h for h, _ in sk.rules})
    with stubs.chart(P.get("chart", "real")):
        g = make_cfg(ctx, sk, ws)
        ok, ag = ctx.call("agenda", g.agenda, sig="agenda:exception")
        if ok:
            for X in nts:
                ctx.eq(f"agenda()[{X}]", ag[X], Z.get(X, num.zero), sig=f"agenda:{P['shape']}:{X}")
            for a in sk.V:
                ctx.eq(f"agenda()[{a}]", ag[a], num.one, sig=f"agenda:{P['shape']}:terminal")
        g = make_cfg(ctx, sk, ws)
        ok, ts = ctx.call("treesum", g.treesum, sig="treesum:exception")
        if ok:
            ctx.eq("treesum()", ts, Z.get(sk.S, num.zero), sig=f"treesum:{P['shape']}")
            # ... and equals the sum of the string weights over the whole (finite) language
            n = _max_yield(good, sk.V, sk.S)
            if 0 <= n <= P.get("maxlen", 4):
                tot = num.zero
                for k in range(n + 1):
                    for x in itertools.product(sorted(sk.V), repeat=k):
                        tot = num.add(tot, O.string_weight(orules, sk.V, sk.S, x, num, []))
                ctx.eq("treesum() = sum over the language of the string weights", ts, tot, sig=f"treesum-language:{P['shape']}")
    if P.get("chart", "real") == "real":
        # a coarse query first (iteration cap) must not influence a later default query on the same object
        g = make_cfg(ctx, sk, ws)
        ok, _ = ctx.call("treesum(maxiter=1)", lambda: g.treesum(maxiter=1), sig="treesum:exception")
        ok, ts2 = ctx.call("treesum() after treesum(maxiter=1)", g.treesum, sig="treesum:exception")
        if ok:
            ctx.eq("treesum() after a coarse treesum(maxiter=1) on the same grammar object", ts2, Z.get(sk.S, num.zero), sig=f"treesum-after-coarse:{P['shape']}")
        ok, ag2 = ctx.call("agenda(tol=0.5) then agenda()", lambda: (g.agenda(tol=0.5), g.agenda())[1], sig="agenda:exception")
        if ok:
            for X in nts:
                ctx.eq(f"agenda()[{X}] after agenda(tol=0.5) on the same object", ag2[X], Z.get(X, num.zero), sig=f"agenda-after-coarse:{P['shape']}")
        g = make_cfg(ctx, sk, ws)
        ok, nb = ctx.call("naive_bottom_up", g.naive_bottom_up, sig="naive_bottom_up:exception")
        if ok:
            for X in nts:
                ctx.eq(f"naive_bottom_up()[{X}]", nb[X], Z.get(X, num.zero), sig=f"naive:{P['shape']}:{X}")


@case("C08", "expected_length", domain="SNum")
def expected_length(ctx):
    P = ctx.P
    sk = grammar(P["shape"])
    ws = grammar_weights(ctx, sk)
    orules = oracle_rules(ctx, sk, ws)
    num = ctx.num
    fin, good = _acyclic_generating(orules, sk.V)
    if not fin:
        ctx.oob("recursive sub-shape")
        return
    n = _max_yield(good, sk.V, sk.S)
    if n > P.get("maxlen", 4):
        ctx.oob("language too long")
        return
    g = make_cfg(ctx, sk, ws)
    ok, el = ctx.call("expected_length", lambda: g.expected_length, sig="expected_length:exception")
    if not ok:
        return
    tot = num.zero
    for k in range(max(n, 0) + 1):
        for x in itertools.product(sorted(sk.V), repeat=k):
            tot = num.add(tot, num.mul(num.one * k if k else num.zero, O.string_weight(orules, sk.V, sk.S, x, num, [])))
    ctx.eq("expected_length = sum_x |x| G(x)", el, tot, sig=f"expected_length:{P['shape']}")


@case("C08", "settings_history", domain="SNum")
def settings_history(ctx):
    """Concrete (fixed float weights, recursive grammar): a query with coarse convergence settings must not
    influence a later default query on the same grammar object.  Not a solver verdict: convergence up to a
    tolerance is outside the exact symbolic model; this pins the purity of treesum/agenda w.r.t. their settings."""
    P = ctx.P
    sk = grammar(P["shape"])
    ws = [0.05 + 0.04 * ((3 * k) % 5) for k in range(sk.K)]
    g = make_cfg(ctx, sk, ws)
    fresh = make_cfg(ctx, sk, ws).treesum()
    for first in (dict(maxiter=2), dict(tol=1e-1), dict(maxiter=0)):
        g = make_cfg(ctx, sk, ws)
        ok, _ = ctx.call(f"treesum({first})", lambda: g.treesum(**first), sig="treesum:exception")
        ok, v = ctx.call("treesum()", g.treesum, sig="treesum:exception")
        if ok:
            ctx.check(f"treesum() after treesum({first}) on the same object equals a fresh treesum()", abs(float(v) - float(fresh)) <= 1e-9,
                      detail=f"{v} vs {fresh}", sig=f"settings-history:{P['shape']}")
        g = make_cfg(ctx, sk, ws)
        ok, _ = ctx.call(f"agenda({first})", lambda: g.agenda(**first), sig="agenda:exception")
        ok, a = ctx.call("agenda()", g.agenda, sig="agenda:exception")
        if ok:
            ctx.check(f"agenda()[S] after agenda({first}) on the same object equals a fresh treesum()", abs(float(a[sk.S]) - float(fresh)) <= 1e-9,
                      detail=f"{a[sk.S]} vs {fresh}", sig=f"settings-history:{P['shape']}")


class _Stop(BaseException):
    pass


@case("C08", "inductive", domain="SW")
def inductive(ctx):
    """(b) one step of the semi-naive loop from an ARBITRARY state: the invariant
    old + change = F(old) is preserved because the step changes both sides by the same amount."""
    P = ctx.P
    D = ctx.D
    T = D.term
    num = ctx.num
    sk = grammar(P["shape"])
    K = sk.K
    ws = [D.var(k, positive=True) for k in range(K)]
    g = make_cfg(ctx, sk, ws)
    nts = sorted({h for h, _ in sk.rules} | {y for _, b in sk.rules for y in b if y not in sk.V})
    syms = nts + sorted(sk.V)
    top = P["block"]  # index (from the leaves) of the highest block with pending changes
    state = {}

    def hook(self, old, change, b):
        state["n"] = state.get("n", 0) + 1
        if state["n"] == 1:
            deps = self.dependency_graph()
            bucket = deps.buckets
            nb = len(deps.blocks)
            state["bucket"] = bucket
            tb = nb - 1 - top
            if tb < 0:
                raise E.OutOfBounds("no such block")
            old.clear()
            change.clear()
            o0, c0 = {}, {}
            for i, X in enumerate(syms):
                vo = D.var(K + 2 * i, positive=(X in sk.V and P.get("terminals_positive", True)))
                if not D.is_zero_weight(vo):
                    old[X] = vo
                o0[X] = T(vo)
                if bucket[X] <= tb:
                    vc = D.var(K + 2 * i + 1)
                    change[bucket[X]][X] = vc  # zero-valued entries may be present, as in real runs
                    c0[X] = T(vc)
                else:
                    c0[X] = num.zero
            state["old0"], state["chg0"] = o0, c0
            state["chart"].pops = 0
            return
        if state["chart"].pops == 0:
            return  # the loop only moved on to the next block; no item has been popped yet
        # arrival at the loop head after exactly one pop: one iteration of the body has run
        o1 = {X: T(old[X]) for X in syms}
        c1 = {X: num.sum(T(ch[X]) for ch in change.values() if X in ch) for X in syms}
        state["old1"], state["chg1"] = o1, c1
        raise _Stop()

    with stubs.chart("nondet") as chart_cls, stubs.agenda_hook(hook):
        state["chart"] = chart_cls
        try:
            g.agenda()
            state["finished"] = True
        except _Stop:
            pass
        except Exception as e:  # noqa: BLE001
            ctx.call("agenda step", lambda: (_ for _ in ()).throw(e), sig="agenda-step:exception")
            return
    if "old1" not in state:
        # nothing was pending anywhere: the loop ended without a step (vacuous pre-state)
        ctx.check("no pending change: loop ends", state.get("finished", False), sig="inductive:no-step")
        return
    o0, c0, o1, c1 = state["old0"], state["chg0"], state["old1"], state["chg1"]

    def F(X, old):
        if X in sk.V:
            return num.one
        tot = num.zero
        for w, (h, b) in zip(ws, sk.rules):
            if h == X:
                tot = num.add(tot, num.prod([T(w)] + [old[y] for y in b]))
        return tot

    for X in syms:
        lhs = num.sum([o1[X], c1[X], F(X, o0)])
        rhs = num.sum([o0[X], c0[X], F(X, o1)])
        ctx.eq_terms(f"step preserves old+change-F(old) at {X} (block {top})", lhs, rhs, sig=f"inductive:{P['shape']}:{X}")


def jobs(tier, seed):
    out = []
    quick = tier == "quick"
    import itertools as _it

    scc3 = grammar("G-SCC3")
    nts3 = sorted({h for h, _ in scc3.rules})
    names = [[(X, n) for X, n in zip(nts3, perm)] for perm in _it.permutations([1, 2, 3])] + [[(X, n) for X, n in zip(nts3, perm)] for perm in _it.permutations(["P", "Q", "R"])]
    out.append(dict(case="acyclic", params=dict(shape="G-SCC3", chart="real", renames=names, fixed={str(k): 1 for k in range(scc3.K)})))
    for sh in (["G-FIN", "G-DUP", "G-WIDE", "G-NULL3", "G-HL2", "G-SCC3"] if quick else ["G-FIN", "G-DUP", "G-WIDE", "G-NULL3", "G-HL2", "G-SCC3", "G-NU", "G-LR", "G-DEAD", "G-TRI", "G-MUT", "G-MB", "G-2CYC", "G-UC"]):
        sk = grammar(sh)
        out += split_job(dict(case="acyclic", params=dict(shape=sh, chart="real")), [0] if sk.K >= 7 else [])
        out += split_job(dict(case="expected_length", params=dict(shape=sh)), [0] if sk.K >= 7 else [])
    # all pop orders (small shapes; weights positive to keep the product small)
    for sh, fixed in ([("G-FIN", {"3": 1, "5": 1}), ("G-S2", {"3": 0})] if quick else [("G-FIN", {}), ("G-S2", {"3": 0}), ("G-WIDE", {"0": 1, "1": 1})]):
        out.append(dict(case="acyclic", params=dict(shape=sh, chart="nondet", fixed=fixed), budget=dict(max_paths=6000)))
    for sh in (["G-CAT", "G-S2", "G-TRI"] if quick else ["G-CAT", "G-S2", "G-TRI", "G-LR", "G-PAL", "G-NU", "G-MUT", "G-UC", "G-SCC3"]):
        sk = grammar(sh)
        nsym = len({h for h, _ in sk.rules} | {y for _, b in sk.rules for y in b})
        for blk in range(nsym):
            out.append(dict(case="inductive", params=dict(shape=sh, block=blk), budget=dict(max_paths=8000)))
    for sh in ["G-CAT", "G-LR", "G-PAL"]:
        out.append(dict(case="settings_history", params=dict(shape=sh)))
    out.append(dict(case="acyclic", params=dict(shape="G-FIN", chart="real", canary=True)))
    out.append(dict(case="inductive", params=dict(shape="G-CAT", block=1, canary=True)))
    seeds = [1 + seed % 1000] if quick else [0, 1 + seed % 1000]
    return [dict(j, hashseed=s) for j in out for s in (seeds if not j["params"].get("canary") else seeds[:1])]


INFO = dict(
    level="other",
    level_text="Bounded symbolic verification in two parts. (a) On every sub-shape with finitely many derivations the real agenda (all pop orders via "
               "a chart whose popitem is an engine choice), naive_bottom_up, treesum and expected_length are proved equal to the derivation-sum "
               "polynomial / sum over the language for ALL weights. (b) On recursive grammars, through hook H1 the loop state of CFG.agenda is replaced "
               "by an ARBITRARY symbolic state (independent old/change values per symbol, each possibly zero) and one real iteration is run for an "
               "engine-chosen popped key; z3 proves (old'+change') - (old+change) = F(old') - F(old) for every symbol, which makes the invariant "
               "old+change = F(old) inductive with no precondition. (c) Dependency blocks are the SCCs in an order compatible with the rules. "
               "(d) A coarse query (maxiter / tol) followed by a default query on the same object: exact on finite systems (symbolic) plus one "
               "concrete float guard on recursive grammars (labelled concrete).",
    level_note="From the invariant, non-negativity and monotonicity of F the least-fixed-point claim follows on paper; termination and 'up to tolerance' "
               "are NOT claimed by the solver. Hook H1 (guard GENLM_GRAMMAR_VERIF=1) only observes/overwrites the loop state for this check.",
    design_ref="DESIGN.md section 3 C08",
    explanation="Exact equality on finite-derivation sub-shapes for all weights and pop orders; one inductive step of the real agenda loop from an arbitrary symbolic state on recursive grammars.",
    bounds=dict(quick=dict(acyclic=["G-FIN", "G-DUP", "G-WIDE", "G-NULL3"], pop_orders=["G-FIN", "G-S2"], inductive=["G-CAT", "G-S2", "G-TRI"]),
                thorough=dict(acyclic=10, pop_orders=3, inductive=8)),
    stubs=["NondetChart (SW.chart() returns a Chart whose popitem is an engine choice)", "hook H1 at the head of the CFG.agenda loop"],
    outside=["termination / convergence rate of agenda and naive_bottom_up on recursive systems", "tolerance effects", "IEEE rounding"],
    assumptions=["weights >= 0"],
)

INFO["technique"] = 'symbolic execution of agenda/naive_bottom_up/treesum with z3 real weights and all pop orders; one inductive step of the real agenda loop from an arbitrary symbolic state (hook H1) proved by z3; bounded'
