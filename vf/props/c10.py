"""C10 Transducer composition counts every matching path pair exactly once."""
import itertools

from .. import oracle as O
from ..build import automaton_weights, machine_view, make_fst, oracle_machine, transducer
from ..core import case, split_job
from ..shapes import EPS


def _alph(sk, tape):
    return sorted({ab[tape] for (_, ab, _) in sk.arcs if ab[tape] != EPS})


def _strings(alphabet, L):
    for n in range(L + 1):
        for x in itertools.product(alphabet, repeat=n):
            yield x


@case("C10", "compose", domain="SW")
def compose(ctx):
    P = ctx.P
    num = ctx.num
    F, G = transducer(P["f"]), transducer(P["g"])
    wf = automaton_weights(ctx, F, always=P.get("always_f", ()))
    wg = automaton_weights(ctx, G, offset=F.K, always=[k for k in P.get("always_g", ())])
    of, og = oracle_machine(ctx, F, wf), oracle_machine(ctx, G, wg)
    mid = set(_alph(F, 1)) | set(_alph(G, 0))
    f, g = make_fst(ctx, F, wf), make_fst(ctx, G, wg)
    tag = f"{P['f']}@{P['g']}"
    ok, h = ctx.call("f @ g", lambda: f @ g, sig=f"compose:{tag}:exception")
    if not ok:
        return
    hv = machine_view(ctx, h)
    pairs = [(tuple(x), tuple(z)) for x, z in P["pairs"]]
    for x, z in pairs:
        piv = []
        okr, ref = ctx.ref(f"oracle {x}->{z}", O.compose_weight, of, og, x, z, mid, num, piv)
        if not okr:
            continue
        # the composed machine, evaluated by the path-sum oracle (isolates composition from FST.__call__)
        piv2 = []
        got = O.fst_weight(*hv, x, z, num, piv2)
        ctx.eq_terms(f"(f@g)[{x},{z}] path sum of the composed machine", got, ref, hyps=[ctx.gt0(p) for p in piv + piv2],
                     sig=f"compose:{tag}:{''.join(x)}:{''.join(z)}")
        if P.get("call", False) and (P["call"] is True or len(x) + len(z) <= P["call"]):
            okc, v = ctx.call(f"(f@g)({x},{z})", h, x, z, sig=f"call:{tag}:exception")
            if okc:
                ctx.eq(f"(f@g)({x},{z}) real call", v, ref, pivots=piv, sig=f"call:{tag}:{''.join(x)}:{''.join(z)}", exc_sig="call:not-a-weight")


@case("C10", "single", domain="SW")
def single(ctx):
    """f(x,y), cross-sections, transposition, projection, diag/from_string on one transducer."""
    from genlm.grammar.fst import FST
    from genlm.grammar.wfsa.base import WFSA

    P = ctx.P
    num = ctx.num
    F = transducer(P["f"])
    wf = automaton_weights(ctx, F, always=P.get("always_f", ()))
    of = oracle_machine(ctx, F, wf)
    tag = P["f"]
    pairs = [(tuple(x), tuple(y)) for x, y in P["pairs"]]
    f = make_fst(ctx, F, wf)
    for x, y in pairs:
        piv = []
        ref = O.fst_weight(*of, x, y, num, piv)
        ok, v = ctx.call(f"f({x},{y})", f, x, y, sig=f"call:{tag}:exception")
        if ok:
            ctx.eq(f"f({x},{y})", v, ref, pivots=piv, sig=f"call:{tag}:{''.join(x)}:{''.join(y)}", exc_sig="call:not-a-weight")
        ok, v = ctx.call(f"f.T({y},{x})", lambda: f.T(y, x), sig=f"T:{tag}:exception")
        if ok:
            ctx.eq(f"f.T({y},{x})", v, ref, pivots=piv, sig=f"T:{tag}:{''.join(x)}:{''.join(y)}", exc_sig="T:not-a-weight")
    xs = sorted({x for x, _ in pairs})
    ys = sorted({y for _, y in pairs})
    for x in xs:
        ok, sec = ctx.call(f"f({x},None)", f, x, None, sig=f"section-x:{tag}:exception")
        if ok:
            for y in ys:
                piv = []
                ref = O.fst_weight(*of, x, y, num, piv)
                ok2, v = ctx.call(f"f({x},None)({y})", sec, y, sig=f"section-x:{tag}:exception")
                if ok2:
                    ctx.eq(f"f({x},None)({y})", v, ref, pivots=piv, sig=f"section-x:{tag}:{''.join(x)}:{''.join(y)}")
    for y in ys:
        ok, sec = ctx.call(f"f(None,{y})", f, None, y, sig=f"section-y:{tag}:exception")
        if ok:
            for x in xs:
                piv = []
                ref = O.fst_weight(*of, x, y, num, piv)
                ok2, v = ctx.call(f"f(None,{y})({x})", sec, x, sig=f"section-y:{tag}:exception")
                if ok2:
                    ctx.eq(f"f(None,{y})({x})", v, ref, pivots=piv, sig=f"section-y:{tag}:{''.join(x)}:{''.join(y)}")
    # projections: project(0)(x) = sum_y f(x,y) -- as automata: arcs relabelled; compare as machines
    for axis in (0, 1):
        ok, p = ctx.call(f"project({axis})", f.project, axis, sig=f"project:{tag}:exception")
        if ok:
            arcs, start, stop = of
            parcs = [(i, ab[axis], j, w) for (i, ab, j, w) in arcs]
            pv = machine_view(ctx, p)
            for s in (xs if axis == 0 else ys):
                piv, piv2 = [], []
                ref = O.wfsa_weight(parcs, start, stop, s, num, piv)
                got = O.wfsa_weight(*pv, s, num, piv2)
                ctx.eq_terms(f"project({axis})({s})", got, ref, hyps=[ctx.gt0(q) for q in piv + piv2], sig=f"project:{tag}:{axis}:{''.join(s)}")


@case("C10", "constructors", domain="SW")
def constructors(ctx):
    from genlm.grammar.fst import FST
    from genlm.grammar.wfsa.base import WFSA

    D, num = ctx.D, ctx.num
    R = D.R
    w = D.var(0)
    wt = D.term(w)
    strs = [(), ("a",), ("a", "b"), ("b",), ("b", "a")]
    for s in strs[:3]:
        ok, m = ctx.call("FST.from_string", FST.from_string, s, R, w, sig="from_string:exception")
        if ok:
            for x in strs:
                for y in strs:
                    ok2, v = ctx.call(f"from_string({s})({x},{y})", m, x, y, sig="from_string:call-exception")
                    if ok2:
                        ctx.eq(f"from_string({s}, w)({x},{y})", v, wt if (x == s and y == s) else num.zero, sig="from_string", exc_sig="from_string:not-a-weight")
    # diag of an acceptor
    a = WFSA(R)
    a.add_I(0, R.one)
    a.add_arc(0, "a", 1, w)
    a.add_arc(1, "b", 1, R.one)
    a.add_F(1, R.one)
    ok, d = ctx.call("FST.diag", FST.diag, a, sig="diag:exception")
    if ok:
        for x in strs:
            for y in strs:
                want = wt if (x == y and x in (("a",), ("a", "b"))) else num.zero
                ok2, v = ctx.call(f"diag({x},{y})", d, x, y, sig="diag:call-exception")
                if ok2:
                    ctx.eq(f"diag(A)({x},{y})", v, want, sig="diag", exc_sig="diag:not-a-weight")
    # from_pairs: relation {(xs_i, ys_i)} each with weight one (multiplicity if repeated)
    prs = [(("a",), ("b", "a")), (("a", "b"), ()), ((), ()), (("a",), ("b", "a")), (("b",), ("b",))]
    ok, p = ctx.call("FST.from_pairs", FST.from_pairs, prs, R, sig="from_pairs:exception")
    if ok:
        for x in strs:
            for y in strs + [("b", "a")]:
                cnt = sum(1 for (u, v_) in prs if u == x and v_ == y)
                ok2, v = ctx.call(f"from_pairs({x},{y})", p, x, y, sig="from_pairs:call-exception")
                if ok2:
                    ctx.eq(f"from_pairs(..)({x},{y})", v, num.sum([num.one] * cnt), sig="from_pairs", exc_sig="from_pairs:not-a-weight")
        # and it composes / transposes like any transducer
        ok3, t = ctx.call("from_pairs(..).T", lambda: p.T, sig="from_pairs:T-exception")
        ok4, c = ctx.call("from_pairs(..) @ from_string", lambda: p @ FST.from_string(("b", "a"), R), sig="from_pairs:compose-exception")


PAIRS = {
    ("T-F1", "T-G1"): [((), ()), (("a",), ("e",)), (("a",), ("e", "e")), (("a", "b"), ("e",)), (("a", "b"), ("e", "e")), (("a",), ()), (("a", "b"), ()), ((), ("e",)), ((), ("e", "e"))],
    ("T-F2", "T-G2"): [((), ()), (("a",), ("e",)), (("a",), ()), (("a", "a"), ("e",)), (("a", "b"), ("e", "e")), (("a", "b"), ("e",)), ((), ("e",))],
    ("T-F3", "T-G3"): [((), ()), (("a",), ("e",)), (("a", "a"), ("e",)), (("a", "b"), ("e", "f")), (("a", "a", "b"), ("e", "f", "e")), (("a",), ("f",))],
    ("T-F4", "T-G4"): [((), ()), (("a",), ("e",)), (("a", "b"), ("e",)), (("a", "b", "a"), ("e", "e")), (("a", "b"), ()), (("a", "b", "a"), ("e",))],
    ("T-G4", "T-F4"): [((), ())],
    ("T-F6", "T-G1"): [((), ()), (("a",), ("e",)), (("a",), ()), (("a", "b"), ("e",)), (("a",), ("e", "e")), (("a", "a"), ("e",))],
    ("T-F5", "T-G1"): [((), ()), (("a",), ("e",)), (("b",), ()), (("a", "b"), ("e",)), (("b", "a"), ()), (("a",), ("e", "e"))],
}


def jobs(tier, seed):
    out = []
    quick = tier == "quick"
    combos = [("T-F1", "T-G1", [0, 1]), ("T-F2", "T-G2", [0]), ("T-F4", "T-G4", [0]), ("T-F5", "T-G1", [0, 1]), ("T-F6", "T-G1", [0])] if quick else \
        [("T-F1", "T-G1", [0, 1, 2]), ("T-F2", "T-G2", [0, 1]), ("T-F3", "T-G3", [0, 1]), ("T-F4", "T-G4", [0, 1]), ("T-F5", "T-G1", [0, 1, 2]), ("T-F6", "T-G1", [0, 1])]
    for fn, gn, bits in combos:
        F, G = transducer(fn), transducer(gn)
        # initial/final weights always present in quick (arc weights free)
        af = list(range(len(F.arcs), F.K)) if quick else []
        ag = list(range(len(G.arcs), G.K)) if quick else []
        out += split_job(dict(case="compose", params=dict(f=fn, g=gn, pairs=PAIRS[fn, gn], always_f=af, always_g=ag, call=(2 if quick else True))), bits)
    for fn in (["T-F1", "T-F2", "T-G2", "T-F6"] if quick else ["T-F1", "T-F2", "T-F3", "T-G2", "T-F4", "T-F5", "T-F6"]):
        F = transducer(fn)
        xs = list(_strings(_alph(F, 0), 2))
        ys = list(_strings(_alph(F, 1), 2))
        pairs = [(x, y) for x in xs for y in ys]
        af = list(range(len(F.arcs), F.K)) if quick else []
        out += split_job(dict(case="single", params=dict(f=fn, pairs=pairs, always_f=af)), [0] if quick else [0, 1])
    out.append(dict(case="constructors", params={}))
    out.append(dict(case="compose", params=dict(f="T-F1", g="T-G1", pairs=PAIRS["T-F1", "T-G1"][:4], always_f=[5, 6], always_g=[5, 6], canary=True, fixed={"0": 1, "1": 1, "7": 1, "8": 1})))
    seeds = [1 + seed % 1000] if quick else [0, 1 + seed % 1000]
    return [dict(j, hashseed=s) for j in out for s in (seeds if not j["params"].get("canary") else seeds[:1])]


INFO = dict(
    level="other",
    level_text="Bounded symbolic verification: the real FST.__matmul__ (both association orders), __call__, cross-sections, T, project, diag, "
               "from_string and from_pairs run on transducer skeleton pairs (output-epsilon in the first, input-epsilon in the second, eps:eps arcs "
               "and cycles, several initial/final states) with symbolic weights; the composed machine is evaluated by the path-sum oracle and z3 "
               "proves (f@g)(x,z) = sum_y f(x,y) g(y,z) -- the definition, summed over all intermediate strings -- for all weights; a double "
               "count shows up as a coefficient 2.",
    level_note="Assumes pivots > 0 for epsilon cycles; intermediate-string sums must be finite for the chosen pairs (else out of bounds). "
               "Trusted: CPython, z3, SW proxy, oracle.",
    design_ref="DESIGN.md section 3 C10",
    explanation="Real transducer composition on symbolic weights; z3 proves the relational-composition identity for all weights per path and string pair.",
    bounds=dict(quick=dict(pairs="3 skeleton pairs, 6-9 string pairs each", single="2 transducers, all (x,y) with |x|,|y| <= 2"), thorough=dict(pairs="4 skeleton pairs", single=5)),
    outside=["string pairs beyond those listed", "machines outside the catalogue"],
    assumptions=["weights >= 0", "epsilon-cycle pivots > 0"],
)

INFO["technique"] = 'symbolic execution of FST composition, evaluation, sections, T, project, constructors with z3 real weights; z3 proves (f@g)(x,z) == sum_y f(x,y)g(y,z); bounded'
