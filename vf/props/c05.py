"""C05 Incremental parsing is history-independent; queries are pure."""
import itertools
import sys

from .. import oracle as O
from .. import stubs
from ..build import grammar, grammar_weights, make_cfg, oracle_rules
from ..core import case, split_job
from ..shapes import all_strings


def _make(kind, cfg):
    from genlm.grammar.cfglm import EOS, BoolCFGLM, add_EOS

    if kind == "Earley":
        from genlm.grammar.parse.earley import Earley

        return Earley(add_EOS(cfg).prefix_grammar)
    if kind == "EarleyPlain":
        from genlm.grammar.parse.earley import Earley

        return Earley(cfg)
    if kind == "EarleyRescaledPlain":
        from genlm.grammar.parse.earley_rescaled import Earley

        return Earley(cfg)
    if kind == "CKYPlain":
        from genlm.grammar.parse.cky import IncrementalCKY

        return IncrementalCKY(cfg.cnf)
    if kind == "EarleyRescaled":
        from genlm.grammar.parse.earley_rescaled import Earley

        return Earley(add_EOS(cfg).prefix_grammar)
    if kind == "IncrementalCKY":
        from genlm.grammar.parse.cky import IncrementalCKY

        return IncrementalCKY(add_EOS(cfg).cnf.prefix_grammar.cnf)
    if kind == "EarleyLM":
        from genlm.grammar.parse.earley import EarleyLM

        return EarleyLM(cfg)
    if kind == "EarleyLMRescaled":
        from genlm.grammar.parse.earley_rescaled import EarleyLM

        return EarleyLM(cfg)
    if kind == "CKYLM":
        from genlm.grammar.parse.cky import CKYLM

        return CKYLM(cfg)
    if kind == "BoolCFGLM":
        return BoolCFGLM(cfg)
    if kind == "BoolCFGLM-cky":
        return BoolCFGLM(cfg, alg="cky")
    raise KeyError(kind)


def _do(kind, obj, op, tokens):
    "run one query; the answer as a dict token-or-None -> weight"
    what, arg = op[0], tuple(op[1]) if len(op) > 1 else ()
    if what == "clear":
        obj.clear_cache()
        return {}
    if what == "p_next":
        if kind in ("Earley", "EarleyRescaled"):
            p = obj.next_token_weights(obj.chart(arg))
        else:
            p = obj.p_next(arg)
        return {t: p[t] for t in tokens}
    if what == "call":
        return {None: obj(arg)}
    if what == "chart":
        obj.chart(arg)
        return {}
    raise KeyError(what)


def _snapshot(g):
    return ([(id(r.w), r.head, tuple(r.body)) for r in g.rules], set(g.V), g.S, set(g.N))


@case("C05", "history", domain="SW")
def history_sw(ctx):
    _history(ctx)


@case("C05", "history_num", domain="SNum")
def history_num(ctx):
    _history(ctx)


def _history(ctx):
    from genlm.grammar.cfglm import EOS

    P = ctx.P
    sk = grammar(P["shape"])
    ws = grammar_weights(ctx, sk)
    T = ctx.D.term
    kind = P["kind"]
    tokens = sorted(sk.V) + [EOS]
    ops = [tuple(o) for o in P["ops"]]
    n = P["n"]
    with stubs.agenda_summary(ctx, when=lambda g: not stubs.finite_system(g)):
        fresh = {}

        def fresh_answer(op):
            k = (op[0], tuple(op[1]) if len(op) > 1 else ())
            if k not in fresh:
                g = make_cfg(ctx, sk, ws, perm=P.get("perm"))
                obj = _make(kind, g)
                fresh[k] = _do(kind, obj, op, tokens)
            return fresh[k]

        g0 = make_cfg(ctx, sk, ws, perm=P.get("perm"))
        snap = _snapshot(g0)
        okc, _ = ctx.call(f"{kind}: construct", _make, kind, g0, sig=f"{kind}:construct:exception")
        if not okc:
            return
        ctx.check(f"{kind}: constructing the object leaves the grammar unchanged", _snapshot(g0) == snap, sig=f"{kind}:grammar-mutated-by-construct")
        for hist in itertools.product(range(len(ops)), repeat=n):
            hist = [ops[i] for i in hist]
            if hist[-1][0] in ("clear", "chart"):
                continue  # the last operation must be an observable query
            g = make_cfg(ctx, sk, ws, perm=P.get("perm"))
            snap = _snapshot(g)
            obj = _make(kind, g)
            ans = None
            failed = False
            for op in hist:
                okc, ans = ctx.call(f"{kind}: {hist}", _do, kind, obj, op, tokens, sig=f"{kind}:{op[0]}:exception")
                if not okc:
                    failed = True
                    break
            if failed:
                continue
            okf, want = ctx.call(f"{kind}: fresh {hist[-1]}", fresh_answer, hist[-1], sig=f"{kind}:{hist[-1][0]}:exception")
            if not okf:
                continue
            for t in want:
                ctx.eq_terms(f"{kind}: after {hist[:-1]} the answer to {hist[-1]}[{t}] equals a fresh object's", T(ans[t]), T(want[t]),
                             sig=f"history:{kind}:{P['shape']}:{hist[-1][0]}")
            ctx.check(f"{kind}: queries leave rules, vocabulary and start symbol of the grammar unchanged", _snapshot(g) == snap,
                      sig=f"{kind}:grammar-mutated-by-query")


@case("C05", "transform_purity", domain="SW")
def transform_purity(ctx):
    from . import c06

    P = ctx.P
    sk = grammar(P["shape"])
    ws = grammar_weights(ctx, sk)
    for name, Tf in c06.TRANSFORMS.items():
        g = make_cfg(ctx, sk, ws)
        snap = _snapshot(g)
        okc, out = ctx.call(name, Tf, g, sig=f"{name}:exception")
        if okc:
            ctx.check(f"{name} leaves its input grammar unchanged", _snapshot(g) == snap, sig=f"purity:{name}")
            # earlier results stay valid: a second application gives the same rule multiset
            okc2, out2 = ctx.call(name, Tf, g, sig=f"{name}:exception")
    for name, f in [("prefix_grammar", lambda g: g.prefix_grammar), ("derivative", lambda g: g.derivative("a")), ("truncate_length", lambda g: g.truncate_length(2)),
                    ("materialize", lambda g: g.materialize(2)), ("call", lambda g: g(("a", "b"))), ("compose-string", lambda g: g @ ("a",)), ("to_bytes", lambda g: g.to_bytes()),
                    ("null_weight", lambda g: g.null_weight())]:
        g = make_cfg(ctx, sk, ws)
        snap = _snapshot(g)
        with stubs.agenda_summary(ctx, when=lambda g_: not stubs.finite_system(g_)):
            okc, out = ctx.call(name, f, g, sig=f"{name}:exception")
        if okc:
            ctx.check(f"{name} leaves its input grammar unchanged", _snapshot(g) == snap, sig=f"purity:{name}")


@case("C05", "long_context", domain="SNum")
def long_context(ctx):
    """cold versus warm cache on one long context.  Concrete in the context dimension AND in the
    weights (fixed floats): the subject is the cache/recursion structure, not the arithmetic."""
    from genlm.grammar.cfglm import EOS

    P = ctx.P
    sk = grammar(P["shape"])
    ws = [0.25 + 0.125 * (k % 3) for k in range(sk.K)]
    kind = P["kind"]
    n = P["n"]
    tokens = sorted(sk.V) + [EOS]
    long_ctx = tuple(P["token"] for _ in range(n))
    old = sys.getrecursionlimit()
    depth = len(__import__("inspect").stack())
    sys.setrecursionlimit(P.get("recursionlimit", 1000) + depth)  # CPython's default, measured from here
    try:
        g = make_cfg(ctx, sk, ws)
        warm = _make(kind, g)
        step = P.get("warm_step", 50)
        for k in range(0, n, step):
            okc, _ = ctx.call(f"{kind}: warming prefix of length {k}", _do, kind, warm, ("p_next", long_ctx[:k]), tokens, sig=f"{kind}:warm:exception")
            if not okc:
                return
        okw, aw = ctx.call(f"{kind}: warm query, context of {n} tokens", _do, kind, warm, ("p_next", long_ctx), tokens, sig=f"{kind}:warm:exception")
        g2 = make_cfg(ctx, sk, ws)
        cold = _make(kind, g2)
        okc, ac = ctx.call(f"{kind}: cold query, context of {n} tokens", _do, kind, cold, ("p_next", long_ctx), tokens, sig=f"{kind}:cold-long-context")
        if okw and okc:
            for t in tokens:
                a, b = float(ac[t]), float(aw[t])
                ctx.check(f"{kind}: cold = warm answer [{t}] on a context of {n} tokens", abs(a - b) <= 1e-9 * max(1.0, abs(b)), detail=f"{a} vs {b}", sig=f"long:{kind}")
    finally:
        sys.setrecursionlimit(old)


OPS = [("p_next", []), ("p_next", ["a"]), ("p_next", ["b"]), ("p_next", ["a", "b"]), ("p_next", ["a", "a"]), ("call", ["a", "b"]), ("call", ["a"]), ("chart", ["a", "b"]), ("clear",)]


def jobs(tier, seed):
    out = []
    quick = tier == "quick"
    n = 3 if quick else 3
    plan = [("Earley", "history"), ("IncrementalCKY", "history"), ("EarleyLM", "history_num"), ("EarleyLMRescaled", "history_num"), ("CKYLM", "history_num"),
            ("EarleyRescaled", "history_num"), ("BoolCFGLM", "history_num"), ("BoolCFGLM-cky", "history_num")]
    shapes = [("G-FIN", {"1": 1, "2": 1}), ("G-LIN", {"2": 1})] if quick else [("G-FIN", {}), ("G-LIN", {}), ("G-NU", {"1": 1}), ("G-PAL", {})]
    for sh, fixed in shapes:
        for kind, cname in plan:
            ops = OPS if kind not in ("Earley", "EarleyRescaled", "IncrementalCKY") else OPS
            if kind.endswith("LM") or kind.startswith("Bool") or kind.endswith("Rescaled") and "LM" in kind:
                ops = [o for o in OPS if o[0] not in ("call", "chart")] + [("call", ["a", "b", "▪"])]
            if kind in ("EarleyLM", "EarleyLMRescaled", "CKYLM", "BoolCFGLM", "BoolCFGLM-cky"):
                pass
            sk = grammar(sh)
            free = [k for k in range(sk.K) if str(k) not in fixed]
            bits = free[:2]
            j = dict(case=cname, params=dict(shape=sh, kind=kind, ops=ops if kind in ("Earley", "EarleyRescaled", "IncrementalCKY") else [o for o in ops if o[0] != "chart"], n=n, fixed=fixed), cost=5)
            for s in split_job(j, bits):
                s["params"]["fixed"] = dict(fixed, **s["params"]["fixed"])
                out.append(s)
    # string-weight queries on parsers built on the grammar itself (no prefix transform): mutual left recursion with two
    # entry points, several rule orders (the left-corner prediction closure depends on the internal numbering)
    mlr = grammar("G-MLR")
    calls = [("call", list(x)) for x in ["ace", "bde", "adxe", "bcze", "bcyze", "acyzxe", "bdxze", "acye"]]
    perms = [None, list(reversed(range(mlr.K))), [2, 3, 0, 1, 4, 5, 6, 7], [3, 2, 1, 0, 7, 6, 5, 4]]
    for kind, cname in [("EarleyPlain", "history"), ("EarleyRescaledPlain", "history_num"), ("CKYPlain", "history")]:
        for pm in (perms[:2] if quick else perms):
            out.append(dict(case=cname, params=dict(shape="G-MLR", kind=kind, ops=calls + [("clear",)], n=2, perm=pm, fixed={str(k): 1 for k in range(mlr.K)}), cost=4))
    if not quick:
        # histories of length 4 over a smaller pool (siblings, nesting, repetition, cache clearing)
        pool4 = [("p_next", []), ("p_next", ["a"]), ("p_next", ["b"]), ("p_next", ["a", "b"]), ("p_next", ["a", "a"]), ("clear",)]
        for kind, cname in plan:
            out.append(dict(case=cname, params=dict(shape="G-FIN", kind=kind, ops=pool4, n=4, fixed={"0": 1, "1": 1, "2": 1, "3": 1, "4": 1, "5": 1}), cost=9, timeout=2400))
            out.append(dict(case=cname, params=dict(shape="G-LIN", kind=kind, ops=pool4, n=4, fixed={"0": 1, "1": 1, "2": 1, "3": 1, "4": 1}), cost=9, timeout=2400))
    for sh in (["G-NU"] if quick else ["G-NU", "G-UC", "G-FIN", "G-NULL3"]):
        out += split_job(dict(case="transform_purity", params=dict(shape=sh)), [0, 1])
    for kind in ["EarleyLM", "EarleyLMRescaled", "BoolCFGLM", "Earley"] + ([] if quick else ["CKYLM", "IncrementalCKY"]):
        out.append(dict(case="long_context", params=dict(shape="G-S1", kind=kind, n=600 if "CKY" not in kind else 520, token="a")))
    out.append(dict(case="history", params=dict(shape="G-S1", kind="Earley", ops=OPS[:3], n=2, canary=True)))
    seeds = [1 + seed % 1000] if quick else [0, 1 + seed % 1000]
    return [dict(j, hashseed=s) for j in out for s in (seeds if not j["params"].get("canary") else seeds[:1])]


INFO = dict(
    level="other",
    level_text="Bounded symbolic verification over histories: one long-lived Earley / rescaled Earley / IncrementalCKY / EarleyLM / CKYLM / BoolCFGLM "
               "object is driven through EVERY sequence of up to 3 operations drawn from a pool of p_next / call / chart / clear_cache over sibling, "
               "nested and repeated prefixes, and the last answer is compared (as a weighted map over the vocabulary, so modulo zero entries) with a "
               "fresh object's answer: z3 proves equality for all rule weights on each sub-grammar path. Rules, vocabulary, start symbol and "
               "nonterminal set of the grammar are snapshotted before and after every query and transformation. One cold-versus-warm pair on a "
               "600-token context under CPython's default recursion limit.",
    level_note="The solver quantifies over weights; histories are a bounded enumeration (length <= 3 over a pool of 9 operations); the long context is "
               "concrete in the context dimension. Recursive systems use the agenda summary.",
    design_ref="DESIGN.md section 3 C05",
    explanation="All operation histories up to length 3 on long-lived parser/LM objects vs fresh objects, with symbolic weights; grammar immutability snapshots; one long cold/warm pair.",
    bounds=dict(quick=dict(histories="all sequences of 3 ops over a pool of 8-9", objects=8, skeletons=["G-FIN", "G-LIN"], long_context=600),
                thorough=dict(histories="all sequences of 3 ops", objects=8, skeletons=4, long_context=600)),
    stubs=["agenda summary on recursive systems"],
    outside=["histories longer than 3", "contexts beyond the pool", "concurrent use of one object"],
    assumptions=["weights >= 0"],
)

INFO["technique"] = 'symbolic execution of long-lived parser/LM objects over all operation histories up to length 3 (4 in thorough) with z3 real weights; z3 proves answer(history) == answer(fresh); bounded'
