"""C04 Grammar language models are the exact left-to-right factorisation."""
import itertools

from .. import oracle as O
from .. import stubs
from ..build import grammar, grammar_weights, make_cfg, oracle_rules
from ..core import case, split_job
from ..shapes import all_strings


def _lm(name, cfg):
    if name == "earley":
        from genlm.grammar.parse.earley import EarleyLM

        return EarleyLM(cfg)
    if name == "rescaled":
        from genlm.grammar.parse.earley_rescaled import EarleyLM

        return EarleyLM(cfg)
    if name == "cky":
        from genlm.grammar.parse.cky import CKYLM

        return CKYLM(cfg)
    raise KeyError(name)


@case("C04", "lm", domain="SNum")
def lm(ctx):
    from genlm.grammar.cfglm import EOS

    P = ctx.P
    sk = grammar(P["shape"])
    ws = grammar_weights(ctx, sk)
    orules = oracle_rules(ctx, sk, ws)
    num = ctx.num
    T = ctx.D.term
    V = sorted(sk.V)
    contexts = [tuple(c) for c in P["contexts"]]
    piv0 = []
    ok, Z = ctx.ref("oracle Z", O.treesums, orules, sk.V, num, piv0)
    if not ok:
        return
    ZS = Z.get(sk.S, num.zero)
    pw, gw = {}, {}

    def PW(p):
        if p not in pw:
            piv = []
            pw[p] = (O.prefix_weight(orules, sk.V, sk.S, p, num, piv), piv)
        return pw[p]

    def GW(x):
        if x not in gw:
            piv = []
            gw[x] = (O.string_weight(orules, sk.V, sk.S, x, num, piv), piv)
        return gw[x]

    with stubs.agenda_summary(ctx, when=lambda g: not stubs.finite_system(g)), stubs.heap(P.get("heap", "real")):
        for name in P["lms"]:
            g = make_cfg(ctx, sk, ws)
            okc, model = ctx.call(f"{name}: construct", _lm, name, g, sig=f"{name}:construct:exception")
            if not okc:
                continue
            for c in contexts:
                okr, (pc, piv) = ctx.ref(f"oracle pw{c}", PW, c)
                if not okr:
                    continue
                okc, p = ctx.call(f"{name}.p_next({c})", model.p_next, c, sig=f"{name}:p_next:exception")
                if not okc:
                    continue
                hyp = [ctx.gt0(q) for q in piv0 + piv]
                tag = f"{name}:{P['shape']}:{''.join(c)}"
                if O.is_zero(pc):
                    # a context that no string extends: every next-token weight is zero
                    for t in V + [EOS]:
                        ctx.eq_terms(f"{name}.p_next({c})[{t}] = 0 (dead context)", T(p[t]), num.zero, hyps=hyp, sig=f"dead:{tag}")
                    continue
                tot = num.zero
                for t in V + [EOS]:
                    v = T(p[t])
                    tot = num.add(tot, v)
                    if t == EOS:
                        okr2, (nxt, piv2) = ctx.ref("oracle G", GW, c)
                    else:
                        okr2, (nxt, piv2) = ctx.ref("oracle pw", PW, c + (t,))
                    if okr2:
                        ctx.eq_terms(f"{name}.p_next({c})[{t}] * pw({c}) = {'G' if t == EOS else 'pw'}({c}{'' if t == EOS else '+' + t})",
                                     num.mul(v, pc), nxt, hyps=hyp + [ctx.gt0(q) for q in piv2], sig=f"proportional:{tag}:{t}")
                ctx.eq_terms(f"{name}.p_next({c}) sums to one", tot, num.one, hyps=hyp, sig=f"sums-to-one:{tag}")
                extra = [k for k in p if k not in sk.V and k != EOS and not ctx.D.is_zero_weight(p[k])]
                ctx.check(f"{name}.p_next({c}) only offers vocabulary tokens", not extra, detail=str(extra[:3]), sig=f"extra-token:{tag}")
            # chain rule: lm(x + EOS) = G(x) / Z
            for x in [tuple(s) for s in P.get("chain", [])]:
                okr, (gx, piv) = ctx.ref("oracle G", GW, x)
                if not okr or O.is_zero(ZS):
                    continue
                okc, v = ctx.call(f"{name}({x}+EOS)", model, x + (EOS,), sig=f"{name}:call:exception")
                if okc:
                    ctx.eq_terms(f"{name}({x}+EOS) * Z = G({x})", num.mul(T(v), ZS), gx, hyps=[ctx.gt0(q) for q in piv0 + piv],
                                 sig=f"chain:{name}:{P['shape']}:{''.join(x)}")


@case("C04", "rescaled_underflow", domain="SNum")
def rescaled_underflow(ctx):
    """Concrete IEEE guard (NOT a solver verdict; floats are invisible to the real-arithmetic model): on a long,
    very unlikely context the rescaled Earley LM must still return the exact conditionals.  For S -> a S | eps the
    conditional distribution does not depend on the context length."""
    from genlm.grammar.cfg import CFG
    from genlm.grammar.cfglm import EOS
    from genlm.grammar.parse.earley_rescaled import EarleyLM
    from genlm.grammar.semiring import Float

    P = ctx.P
    n = P["n"]
    pa = P.get("p", 0.001)
    g = CFG(Float, "S", {"a", "b"})
    g.add(pa, "S", "a", "S")
    g.add(pa / 2, "S", "b", "S")
    g.add(1 - pa - pa / 2, "S")
    ok, lm_ = ctx.call("rescaled EarleyLM", EarleyLM, g, sig="rescaled:construct:exception")
    if not ok:
        return
    okc, p0 = ctx.call("p_next(())", lm_.p_next, (), sig="rescaled:p_next:exception")
    for m in sorted({n // 4, n // 2, n}):
        okc2, pn = ctx.call(f"p_next(a^{m})", lm_.p_next, tuple("a" * m), sig="rescaled:p_next:exception")
        if okc and okc2:
            for t in ("a", "b", EOS):
                ctx.check(f"rescaled EarleyLM: p_next(a^{m})[{t}] equals p_next(())[{t}] (context probability ~ {pa}^{m})",
                          abs(float(pn[t]) - float(p0[t])) <= 1e-9, detail=f"{pn[t]} vs {p0[t]}", sig=f"rescaled-underflow:{t}")


@case("C04", "unnormalised", domain="SW")
def unnormalised(ctx):
    """Before normalisation, the weight computed for a next token equals the weight the underlying
    parser assigns to the context extended by that token (any semiring)."""
    from genlm.grammar.cfglm import EOS, add_EOS
    from genlm.grammar.parse.cky import IncrementalCKY
    from genlm.grammar.parse.earley import Earley

    P = ctx.P
    sk = grammar(P["shape"])
    ws = grammar_weights(ctx, sk)
    orules = oracle_rules(ctx, sk, ws)
    num = ctx.num
    V = sorted(sk.V)
    contexts = [tuple(c) for c in P["contexts"]]
    with stubs.agenda_summary(ctx, when=lambda g: not stubs.finite_system(g)), stubs.heap(P.get("heap", "real")):
        for name in P["parsers"]:
            g = add_EOS(make_cfg(ctx, sk, ws))
            if name == "earley":
                okc, m = ctx.call("Earley(prefix grammar)", lambda: Earley(g.prefix_grammar), sig="earley:construct:exception")
                ntw = (lambda c: m.next_token_weights(m.chart(c))) if okc else None
            else:
                okc, m = ctx.call("IncrementalCKY(prefix grammar)", lambda: IncrementalCKY(g.cnf.prefix_grammar.cnf), sig="cky:construct:exception")
                ntw = (lambda c: m.p_next(c)) if okc else None
            if not okc:
                continue
            for c in contexts:
                okc, p = ctx.call(f"{name}.next_token_weights({c})", ntw, c, sig=f"{name}:next_token_weights:exception")
                if not okc:
                    continue
                for t in V + [EOS]:
                    piv = []
                    if t == EOS:
                        okr, ref = ctx.ref("oracle", O.string_weight, orules, sk.V, sk.S, c, num, piv)
                    else:
                        okr, ref = ctx.ref("oracle", O.prefix_weight, orules, sk.V, sk.S, c + (t,), num, piv)
                    if not okr:
                        continue
                    ctx.eq(f"{name}: next_token_weights({c})[{t}] = prefix weight of {c}+{t}", p[t], ref, pivots=piv,
                           sig=f"ntw:{name}:{P['shape']}:{''.join(c)}:{t}")
                    okc2, v = ctx.call(f"{name}: parser({c}+{t})", m, c + (t,), sig=f"{name}:parser-call:exception")
                    if okc2:
                        ctx.eq(f"{name}: parser({c}+{t}) = prefix weight", v, ref, pivots=piv, sig=f"parser:{name}:{P['shape']}:{''.join(c)}:{t}")


def jobs(tier, seed):
    out = []
    quick = tier == "quick"
    L = 2 if quick else 3
    shapes = ["G-FIN", "G-LIN", "G-PAL", "G-DIA"] if quick else ["G-FIN", "G-LIN", "G-PAL", "G-NU", "G-LR", "G-S1", "G-DUP", "G-WIDE", "G-MUT"]
    for sh in shapes:
        sk = grammar(sh)
        contexts = [list(x) for x in all_strings(sk.V, L)]
        # the chain-rule product over a length-3 string nests four normalisations: only on the small skeletons
        chain = [list(x) for x in all_strings(sk.V, 2)] + ([["a", "b", "a"], ["a", "a", "b"]] if (not quick and sk.K < 6) else [])
        bits = [0, 1] if sk.K >= 6 else [0]
        for lmname in ["earley", "rescaled", "cky"]:
            # the rescaled variant's nested ratio terms exhaust the normaliser on length-3 contexts of the larger skeletons
            cs = [c for c in contexts if len(c) <= 2] if (not quick and sk.K >= 6 and lmname in ("rescaled", "cky")) else contexts
            out += split_job(dict(case="lm", params=dict(shape=sh, contexts=cs, chain=chain, lms=[lmname]), timeout=600), bits)
        for pn in ["earley", "cky"]:
            out += split_job(dict(case="unnormalised", params=dict(shape=sh, contexts=contexts[: (3 if quick else 7)], parsers=[pn])), bits)
    # all agenda tie-break orders for the two Earley variants
    for sh in (["G-WIDE"] if quick else ["G-WIDE", "G-FIN", "G-LIN"]):
        sk = grammar(sh)
        contexts = [list(x) for x in all_strings(sk.V, 2)]
        fx = {"0": 1, "1": 1} if sh == "G-WIDE" else {}
        out.append(dict(case="lm", params=dict(shape=sh, contexts=contexts, chain=[["a", "b"]], lms=["earley"], heap="nondet", fixed=fx), budget=dict(max_paths=6000)))
        out.append(dict(case="lm", params=dict(shape=sh, contexts=contexts, chain=[["a", "b"]], lms=["rescaled"], heap="nondet", fixed=fx), budget=dict(max_paths=6000)))
    out.append(dict(case="rescaled_underflow", params=dict(n=240 if quick else 400)))
    # a longer context on a tiny skeleton: the product of per-column rescale factors must cancel exactly
    for lmname, n_long in [("rescaled", 4 if quick else 5), ("earley", 10 if quick else 16), ("cky", 6 if quick else 8)]:
        # one symbolic weight (S -> a S); the other two rules carry weight one: univariate rational functions
        out.append(dict(case="lm", params=dict(shape="G-S1", contexts=[["a"] * n_long], chain=[["a"] * (n_long // 2)], lms=[lmname], fixed={"0": 1}, const={"1": 1, "2": 1}), timeout=1500))
    out.append(dict(case="lm", params=dict(shape="G-S1", contexts=[[], ["a"]], chain=[["a"]], lms=["earley"], canary=True)))
    seeds = [1 + seed % 1000] if quick else [0, 1 + seed % 1000]
    return [dict(j, hashseed=s) for j in out for s in (seeds if (not j["params"].get("canary") and j["params"].get("heap") != "nondet") else seeds[:1])]


INFO = dict(
    level="other",
    level_text="Bounded symbolic verification: EarleyLM, the rescaled EarleyLM and CKYLM are built on grammar skeletons with symbolic Float weights; for "
               "every context up to the bound z3 proves, for all weights with finite total weight: the next-token distribution sums to one, "
               "p_next[t] * pw(ctx) = pw(ctx+t) with EOS receiving G(ctx) (pw = independent closed-form prefix weight), dead contexts give all-zero "
               "weights, lm(x+EOS) * Z = G(x); and in an arbitrary user semiring the un-normalised next_token_weights equal the parser's weight of "
               "ctx+t. A second pass explores every agenda tie-break order of both Earley variants; a third runs one longer context (one symbolic weight) "
               "per back-end; one CONCRETE float guard (240/400-token context) pins the rescaling against IEEE underflow and is labelled as such.",
    level_note="Recursive systems use the agenda summary (C08 checks its contract); finite ones run the real agenda (tolerance cut). IEEE underflow -- the "
               "reason the rescaled variant exists -- is invisible over the reals and NOT claimed; logp (np.log) is not checked.",
    design_ref="DESIGN.md section 3 C04",
    explanation="Real language models on symbolic weights; z3 proves normalisation, proportionality to prefix weights and the chain rule for all weights per context.",
    bounds=dict(quick=dict(contexts="<= 2", skeletons=["G-FIN", "G-LIN", "G-PAL"], tie_breaks="G-WIDE"), thorough=dict(contexts="<= 3", skeletons=9, tie_breaks=3)),
    stubs=["agenda summary on recursive systems", "NondetHeap in the tie-break jobs"],
    outside=["IEEE underflow/rounding for the solver-decided part (one concrete float guard `rescaled_underflow` on a 240/400-token context is included and says so)", "Earley.logp", "non-linear recursion", "contexts beyond the bound"],
    assumptions=["weights >= 0", "finite total weight (pivots > 0)"],
)

INFO["technique"] = 'symbolic execution of the three grammar LMs with z3 real weights; z3 proves normalisation, proportionality to prefix weights and the chain rule per context; bounded (+1 concrete float guard)'
