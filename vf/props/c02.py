"""C02 Every parser returns the derivation-sum weight of a string."""
import itertools

from .. import oracle as O
from ..build import grammar, grammar_weights, make_cfg, oracle_rules
from ..core import case
from ..shapes import all_strings
from .. import stubs


def _parser(name, cfg):
    if name == "call":
        return lambda x: cfg(x)
    if name == "earley":
        from genlm.grammar.parse.earley import Earley

        p = Earley(cfg)
        return lambda x: p(x)
    if name == "rescaled":
        from genlm.grammar.parse.earley_rescaled import Earley

        p = Earley(cfg)
        return lambda x: p(x)
    if name == "cky":
        from genlm.grammar.parse.cky import IncrementalCKY

        p = IncrementalCKY(cfg.cnf)
        return lambda x: p(x)
    raise KeyError(name)


def _body(ctx):
    P = ctx.P
    sk = grammar(P["shape"])
    ws = grammar_weights(ctx, sk)
    ren = None
    if P.get("rename"):
        m = dict((a, tuple(b) if isinstance(b, list) else b) for a, b in P["rename"])  # JSON turns tuples into lists
        ren = lambda x: m.get(x, x)
    S = ren(sk.S) if ren else sk.S
    orules = oracle_rules(ctx, sk, ws, rename=ren)
    strings = [tuple(x) for x in P["strings"]]
    refs = {}
    for x in strings:
        piv = []
        ok, r = ctx.ref(f"oracle:{x}", O.string_weight, orules, sk.V, S, x, ctx.num, piv)
        if ok:
            refs[x] = (r, piv)
    with stubs.heap(P.get("heap", "real")):
        for pname in P["parsers"]:
            cfg = make_cfg(ctx, sk, ws, perm=P.get("perm"), rename=ren)
            ok, p = ctx.call(f"{pname}:construct", _parser, pname, cfg, sig=f"{pname}:construct")
            if not ok:
                continue
            for x in strings:
                if x not in refs:
                    continue
                ok, v = ctx.call(f"{pname}:{x}", p, x, sig=f"{pname}:{'empty' if not x else 'nonempty'}-string")
                if ok:
                    r, piv = refs[x]
                    ctx.eq(f"{pname}:{x}", v, r, pivots=piv, sig=f"{pname}:{P['shape']}:{''.join(map(str, x))}")


case("C02", "parsers", domain="SW")(_body)
case("C02", "parsers_num", domain="SNum")(_body)


@case("C02", "parsers_bool", domain="SNum")
def parsers_bool(ctx):
    """Idempotent behaviour: the shipped Boolean semiring (weights mapped through Boolean(x > 0) as the
    library does); the reference is plain Boolean membership."""
    from genlm.grammar.semiring import Boolean

    P = ctx.P
    sk = grammar(P["shape"])
    ws = grammar_weights(ctx, sk)
    live = [(1 if not ctx.D.is_zero_weight(w) else 0, h, b) for w, (h, b) in zip(ws, sk.rules)]
    strings = [tuple(x) for x in P["strings"]]
    for pname in P["parsers"]:
        cfg = make_cfg(ctx, sk, ws, R=Boolean, wmap=lambda w: Boolean(w > 0))
        ok, p = ctx.call(f"{pname}:construct", _parser, pname, cfg, sig=f"bool:{pname}:construct")
        if not ok:
            continue
        for x in strings:
            ok, v = ctx.call(f"{pname}:{x}", p, x, sig=f"bool:{pname}:{'empty' if not x else 'nonempty'}-string")
            if ok:
                want = O.bool_member(live, sk.V, sk.S, x)
                good = isinstance(v, Boolean) and v.score == want
                ctx.check(f"Boolean {pname}({x})", good, detail=f"got {v!r} want {want}", sig=f"bool:{pname}:{P['shape']}:{''.join(x)}")


@case("C02", "materialize", domain="SW")
def materialize(ctx):
    P = ctx.P
    sk = grammar(P["shape"])
    ws = grammar_weights(ctx, sk)
    orules = oracle_rules(ctx, sk, ws)
    n = P["n"]
    cfg = make_cfg(ctx, sk, ws)
    ok, lang = ctx.call(f"materialize({n})", cfg.materialize, n, sig="materialize")
    if not ok:
        return
    piv = []
    ok, ref = ctx.ref("oracle", O.derivation_language, orules, sk.V, sk.S, n, ctx.num, piv)
    if not ok:
        return
    zero = ctx.D.R.zero
    keys = {k for k, v in lang.items() if not ctx.D.is_zero_weight(v)}
    for x, r in ref.items():
        ctx.eq(f"materialize({n})[{x}]", lang[x], r, pivots=piv, sig=f"materialize:{P['shape']}:{len(x)}")
    extra = [k for k in keys if k not in ref]
    ctx.check(f"materialize({n}) lists only strings of length <= n over V", not extra, detail=f"extra keys {extra[:3]}")


def jobs(tier, seed):
    out = []
    quick = tier == "quick"
    L = 3 if quick else 4
    shapes = ["G-NU", "G-CAT", "G-UC", "G-DUP", "G-WIDE", "G-NB", "G-2CYC", "G-DIA", "G-DIA2"] if quick else \
        ["G-NU", "G-CAT", "G-LR", "G-UC", "G-DUP", "G-NULL3", "G-WIDE", "G-FIN", "G-TRI", "G-MUT", "G-PAL"]
    for sh in shapes:
        sk = grammar(sh)
        strings = [list(x) for x in all_strings(sk.V, L)]
        if quick and len(strings) > 15:
            strings = strings[:15]
        # one job per chunk of strings to spread over cores
        for c in range(0, len(strings), 5):
            chunk = strings[c:c + 5]
            out.append(dict(case="parsers", params=dict(shape=sh, strings=chunk, parsers=["call", "earley", "cky"])))
            out.append(dict(case="parsers_num", params=dict(shape=sh, strings=chunk, parsers=["rescaled"])))
    for sh in (["G-NU", "G-UC"] if quick else ["G-NU", "G-UC", "G-CAT", "G-DUP", "G-NULL3", "G-LR"]):
        sk = grammar(sh)
        strings = [list(x) for x in all_strings(sk.V, L)]
        out.append(dict(case="parsers_bool", params=dict(shape=sh, strings=strings, parsers=["call", "earley", "cky"])))
    # schedules: all tie-break orders of the agenda
    for sh in (["G-WIDE"] if quick else ["G-WIDE", "G-UC", "G-LR"]):
        sk = grammar(sh)
        strings = [list(x) for x in all_strings(sk.V, 2 if quick else 3)]
        out.append(dict(case="parsers", params=dict(shape=sh, strings=strings, parsers=["earley"], heap="nondet")))
        out.append(dict(case="parsers_num", params=dict(shape=sh, strings=strings, parsers=["rescaled"], heap="nondet")))
    # rule permutations and renamings
    for sh in (["G-NU"] if quick else ["G-NU", "G-UC", "G-WIDE", "G-LR"]):
        sk = grammar(sh)
        strings = [list(x) for x in all_strings(sk.V, 2)]
        K = sk.K
        perms = [list(reversed(range(K))), list(range(1, K)) + [0]]
        if not quick:
            perms += [list(range(k, K)) + list(range(k)) for k in range(2, K)]
        for p in perms:
            out.append(dict(case="parsers", params=dict(shape=sh, strings=strings, parsers=["call", "earley", "cky"], perm=p)))
            out.append(dict(case="parsers_num", params=dict(shape=sh, strings=strings, parsers=["rescaled"], perm=p)))
        nts = sorted({h for h, _ in sk.rules})
        renames = [[(X, f"Z{len(nts) - i}") for i, X in enumerate(nts)], [(X, (X, 0)) for X in nts]]
        for rn in renames[: (1 if quick else 2)]:
            out.append(dict(case="parsers", params=dict(shape=sh, strings=strings, parsers=["call", "earley", "cky"], rename=rn)))
    for sh in (["G-NU", "G-FIN", "G-DUP"] if quick else ["G-NU", "G-FIN", "G-DUP", "G-CAT", "G-DUP2", "G-PAL"]):
        for n in ([0, 2] if quick else [0, 1, 2, 3]):
            out.append(dict(case="materialize", params=dict(shape=sh, n=n)))
    out.append(dict(case="parsers", params=dict(shape="G-S1", strings=[[], ["a"], ["a", "a"]], parsers=["call", "earley", "cky"], canary=True)))
    out.append(dict(case="parsers_num", params=dict(shape="G-S1", strings=[["a"], ["a", "a"]], parsers=["rescaled"], canary=True)))
    seeds = [0, 1 + seed % 1000] if quick else [0, 1, 2, 3, 4, 5, 6, 1 + seed % 1000]
    full = []
    for i, j in enumerate(out):
        for s in (seeds if (j["params"].get("heap") != "nondet" and not j["params"].get("canary")) else seeds[:1]):
            full.append(dict(j, hashseed=s))
    return full


INFO = dict(
    level="other",
    level_text="Bounded symbolic verification: the real parsers (CFG.__call__, Earley, rescaled Earley, IncrementalCKY, materialize) run on "
               "grammar skeletons whose rule weights are z3 reals in [0,inf) (each may be zero, so a K-rule skeleton covers its 2^K sub-grammars); "
               "z3 discharges, per control path and string, the polynomial/rational identity result == derivation-sum oracle for ALL weight "
               "valuations, and explores every agenda tie-break order through a contract-only heap. Strings, skeletons, permutations and hash "
               "seeds are bounded enumerations.",
    level_note="Trusted: CPython, z3, the symbolic weight proxies (exact real arithmetic), the independent inside-algorithm oracle (Cramer for "
               "cyclic unary/null systems), the (num,den) normaliser. Assumes convergence pivots > 0. Outside: strings longer than the bound, "
               "shapes outside the catalogue, hash seeds beyond the sampled ones, IEEE rounding.",
    design_ref="DESIGN.md section 3 C02",
    explanation="Symbolic execution of the real parsers over symbolic rule weights; z3 proves result == sum over derivation trees for all weights on each path.",
    bounds=dict(quick=dict(strings="<= 3 over {a,b} (15 per skeleton)", skeletons="see coverage.inputs_run (measured)", hash_seeds=2, tie_breaks="all on G-WIDE (len<=2)", permutations="reverse, rotate-1", materialize_n=[0, 2]),
                thorough=dict(strings="<= 4", skeletons=11, hash_seeds=8, tie_breaks="all on G-WIDE,G-UC,G-LR (len<=3)", permutations="all rotations + reverse", materialize_n=[0, 1, 2, 3])),
    stubs=["NondetHeap replaces arsenal LocatorMaxHeap only in the tie-break jobs (contract: pop returns some key of maximal priority)"],
    outside=["non-linear nullable recursion (oracle raises out-of-bounds)", "PYTHONHASHSEED is a sampled dimension", "IEEE rounding of Float weights"],
    assumptions=["weights range over the non-negative reals", "oracle pivots > 0 (convergence of cyclic unary/null sums)"],
)

INFO["technique"] = 'symbolic execution of the real parsers with z3 reals as rule weights; z3 proves result == derivation-sum oracle per path and string; all agenda tie-breaks via a contract-only heap; bounded'
