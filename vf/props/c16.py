"""C16 Shipped weight types obey the closed-semiring laws."""
import itertools
import math

import z3

from .. import sym as S
from ..core import case

TYPES = ["Real", "Float", "MaxTimes", "MaxPlus", "Expectation", "Entropy", "Boolean", "Log"]


def _values(ctx, T):
    """pool of values of the shipped type: the shared zero/one objects, freshly constructed equal
    values, and symbolic ones"""
    from genlm.grammar import semiring as R

    D = ctx.D
    P = ctx.P
    nsym = P.get("nsym", 3)
    if T == "Float":
        syms = [D.svar(k) for k in range(nsym)]
        return R.Float, [("zero", 0), ("one", 1), ("zero'", 0.0), ("one'", 1.0)] + [(f"x{k}", v) for k, v in enumerate(syms)], None
    if T == "Real":
        syms = [R.Real(D.svar(k)) for k in range(nsym)]
        return R.Real, [("zero", R.Real.zero), ("one", R.Real.one), ("zero'", R.Real(0)), ("one'", R.Real(1))] + [(f"x{k}", v) for k, v in enumerate(syms)], None
    if T == "MaxTimes":
        syms = [R.MaxTimes(D.var(k)) for k in range(nsym)]  # domain: scores >= 0
        return R.MaxTimes, [("zero", R.MaxTimes.zero), ("one", R.MaxTimes.one), ("one'", R.MaxTimes(1))] + [(f"x{k}", v) for k, v in enumerate(syms)], "le1"
    if T == "MaxPlus":
        syms = [R.MaxPlus(D.svar(k)) for k in range(nsym)]
        return R.MaxPlus, [("zero", R.MaxPlus.zero), ("one", R.MaxPlus.one), ("zero'", R.MaxPlus(-math.inf)), ("one'", R.MaxPlus(0.0))] + [(f"x{k}", v) for k, v in enumerate(syms)], "le0"
    if T == "Expectation":
        syms = [R.Expectation(D.svar(2 * k), D.svar(2 * k + 1)) for k in range(nsym)]
        return R.Expectation, [("zero", R.Expectation.zero), ("one", R.Expectation.one), ("one'", R.Expectation(1.0, 0.0))] + [(f"x{k}", v) for k, v in enumerate(syms)], None
    if T == "Entropy":
        syms = [R.Entropy(D.svar(2 * k), D.svar(2 * k + 1)) for k in range(nsym)]
        return R.Entropy, [("zero", R.Entropy.zero), ("one", R.Entropy.one), ("zero'", R.Entropy(0.0, 0.0)), ("one'", R.Entropy(1.0, 0.0))] + [(f"x{k}", v) for k, v in enumerate(syms)], None
    if T == "Boolean":
        syms = [R.Boolean(D.svar(k) > 0) for k in range(nsym)]
        return R.Boolean, [("zero", R.Boolean.zero), ("one", R.Boolean.one), ("zero'", R.Boolean(False)), ("one'", R.Boolean(True))] + [(f"x{k}", v) for k, v in enumerate(syms)], None
    if T == "Log":
        # exact log-domain model: the score of x_k is log(r_k) with r_k a symbolic real > 0
        if ctx.symbolic:
            syms = [R.Log(S.LogNum(D.var(k, positive=True))) for k in range(nsym)]
        else:
            syms = [R.Log(math.log(float(D.var(k)))) if D.var(k) != 0 else R.Log(-math.inf) for k in range(nsym)]
        return R.Log, [("zero", R.Log.zero), ("one", R.Log.one), ("zero'", R.Log(-math.inf)), ("one'", R.Log(0.0))] + [(f"x{k}", v) for k, v in enumerate(syms)], "lt0"
    raise KeyError(T)


def _components(ctx, v):
    s = v.score if hasattr(v, "score") else v
    if isinstance(s, S.LogNum):
        return [s]
    return list(s) if isinstance(s, tuple) else [s]


def _log_to_real(x):
    "a Log score (LogNum, or a concrete float) as the positive real it is the logarithm of"
    if isinstance(x, S.LogNum):
        return x.r
    if isinstance(x, float) and math.isinf(x) and x < 0:
        return 0
    if x == 0:
        return 1
    return math.exp(x)


def _same(ctx, label, lhs, rhs, hyps=(), tol=0):
    a, b = _components(ctx, lhs), _components(ctx, rhs)
    if len(a) != len(b):
        ctx.check(label, False, "different arity")
        return
    for i, (x, y) in enumerate(zip(a, b)):
        lab = f"{label}[{i}]" if len(a) > 1 else label
        if any(isinstance(v, float) and math.isnan(v) for v in (x, y)):
            ctx.check(lab + (" [as positive reals]" if label.startswith("Log:") else ""), False, f"not a number: {x!r} vs {y!r}")
            continue
        if label.startswith("Log:") and not (isinstance(x, S.LogNum) or isinstance(y, S.LogNum)) and not ctx.symbolic:
            # concrete replay of the log-domain obligations: compare the positive reals, same label as the symbolic run
            ctx.eq_terms(lab + " [as positive reals]", _log_to_real(x), _log_to_real(y), hyps=hyps, tol=max(tol, 1e-9))
            continue
        if isinstance(x, S.LogNum) or isinstance(y, S.LogNum):
            T = ctx.D.term
            ctx.eq_terms(lab + " [as positive reals]", T(_log_to_real(x)), T(_log_to_real(y)), hyps=hyps, tol=tol)
            continue
        xi = isinstance(x, float) and math.isinf(x)
        yi = isinstance(y, float) and math.isinf(y)
        if xi or yi:
            ctx.check(lab, xi and yi and x == y, f"{x!r} vs {y!r}")
        elif isinstance(x, bool) or isinstance(y, bool):
            ctx.check(lab, x == y, f"{x!r} vs {y!r}")
        else:
            T = ctx.D.term
            ctx.eq_terms(lab, T(x), T(y), hyps=hyps, tol=tol)


def _lt(ctx, v, bound):
    "hypothesis  score(v) < / <= bound  as a domain boolean"
    s = _components(ctx, v)[0]
    if isinstance(s, (int, float)) and not isinstance(s, bool):
        return s


@case("C16", "laws", domain="SNum")
def laws(ctx):
    P = ctx.P
    T = P["type"]
    R, pool, stardom = _values(ctx, T)
    tol = 1e-9 if (T == "Log" and not ctx.symbolic) else 0
    add = (lambda a, b: a + b)
    mul = (lambda a, b: a * b)
    names = [n for n, _ in pool]
    vals = dict(pool)
    zero, one = vals["zero"], vals["one"]
    skip_assoc_add = False

    def concrete_fold(*ns):
        "Log only: two concrete finite operands make numpy evaluate log/exp numerically (outside the uninterpreted model)"
        return False and T == "Log" and sum(1 for n in ns if n.startswith("one")) >= 2

    def run(label, f):
        ok, r = ctx.call(label, f, sig=f"{T}:{label.split('(')[0]}:exception")
        return r if ok else None

    # unary / binary laws over the whole pool
    for n, a in pool:
        r = run(f"add-zero-right({n})", lambda: add(a, zero))
        if r is not None:
            _same(ctx, f"{T}: {n}+0 = {n}", r, a, tol=tol)
        r = run(f"add-zero-left({n})", lambda: add(zero, a))
        if r is not None:
            _same(ctx, f"{T}: 0+{n} = {n}", r, a, tol=tol)
        r = run(f"mul-one-right({n})", lambda: mul(a, one))
        if r is not None:
            _same(ctx, f"{T}: {n}*1 = {n}", r, a, tol=tol)
        r = run(f"mul-one-left({n})", lambda: mul(one, a))
        if r is not None:
            _same(ctx, f"{T}: 1*{n} = {n}", r, a, tol=tol)
        r = run(f"annihilate-right({n})", lambda: mul(a, zero))
        if r is not None:
            _same(ctx, f"{T}: {n}*0 = 0", r, zero, tol=tol)
        r = run(f"annihilate-left({n})", lambda: mul(zero, a))
        if r is not None:
            _same(ctx, f"{T}: 0*{n} = 0", r, zero, tol=tol)
    for (n1, a), (n2, b) in itertools.product(pool, repeat=2):
        if concrete_fold(n1, n2):
            continue
        r1 = run(f"add-comm({n1},{n2})", lambda: add(a, b))
        r2 = run(f"add-comm'({n1},{n2})", lambda: add(b, a))
        if r1 is not None and r2 is not None:
            _same(ctx, f"{T}: {n1}+{n2} = {n2}+{n1}", r1, r2, tol=tol)
        r1 = run(f"mul-comm({n1},{n2})", lambda: mul(a, b))
        r2 = run(f"mul-comm'({n1},{n2})", lambda: mul(b, a))
        if r1 is not None and r2 is not None:
            _same(ctx, f"{T}: {n1}*{n2} = {n2}*{n1}", r1, r2, tol=tol)
    chunk_i, chunk_n = P.get("chunk", (0, 1))
    tpool = [(n, v) for n, v in pool if not P.get("triples_without_fresh") or not n.endswith("'")]
    for ti, ((n1, a), (n2, b), (n3, c)) in enumerate(itertools.product(tpool, repeat=3)):
        if ti % chunk_n != chunk_i:
            continue
        tag = f"({n1},{n2},{n3})"
        if concrete_fold(n1, n2, n3):
            continue
        if not skip_assoc_add:
            r1 = run(f"add-assoc{tag}", lambda: add(add(a, b), c))
            r2 = run(f"add-assoc'{tag}", lambda: add(a, add(b, c)))
            if r1 is not None and r2 is not None:
                _same(ctx, f"{T}: ({n1}+{n2})+{n3} = {n1}+({n2}+{n3})", r1, r2, tol=tol)
        r1 = run(f"mul-assoc{tag}", lambda: mul(mul(a, b), c))
        r2 = run(f"mul-assoc'{tag}", lambda: mul(a, mul(b, c)))
        if r1 is not None and r2 is not None:
            _same(ctx, f"{T}: ({n1}*{n2})*{n3} = {n1}*({n2}*{n3})", r1, r2, tol=tol)
        r1 = run(f"distrib-left{tag}", lambda: mul(a, add(b, c)))
        r2 = run(f"distrib-left'{tag}", lambda: add(mul(a, b), mul(a, c)))
        if r1 is not None and r2 is not None:
            _same(ctx, f"{T}: {n1}*({n2}+{n3}) = {n1}*{n2}+{n1}*{n3}", r1, r2, tol=tol)
        r1 = run(f"distrib-right{tag}", lambda: mul(add(a, b), c))
        r2 = run(f"distrib-right'{tag}", lambda: add(mul(a, c), mul(b, c)))
        if r1 is not None and r2 is not None:
            _same(ctx, f"{T}: ({n1}+{n2})*{n3} = {n1}*{n3}+{n2}*{n3}", r1, r2, tol=tol)
    # star, on the convergent domain
    if stardom != "none":
        for n, a in pool:
            s0 = _components(ctx, a)[0]
            if n.startswith("one"):
                continue  # star(1) diverges for the geometric-series types; MaxPlus/MaxTimes/Boolean covered via symbolic values
            hyps = []
            if T in ("Real", "Float", "Expectation", "Entropy"):
                if isinstance(s0, S.SNum):
                    hyps = [s0.e < 1] if ctx.symbolic else []
                elif not isinstance(s0, S.SNum) and not isinstance(s0, bool) and s0 >= 1:
                    continue
                if not ctx.symbolic and s0 >= 1:
                    continue
            if stardom == "le1":
                if isinstance(s0, S.SNum):
                    hyps = [s0.e <= 1]
                elif s0 > 1:
                    continue
            if stardom == "lt0":
                if isinstance(s0, S.LogNum):
                    hyps = [ctx.D.term(s0.r) < 1]
                elif isinstance(s0, float) and not math.isinf(s0) and s0 >= 0:
                    continue
            if stardom == "le0":
                if isinstance(s0, S.SNum):
                    hyps = [s0.e <= 0]
                elif not (isinstance(s0, float) and math.isinf(s0)) and s0 > 0:
                    continue
            if ctx.symbolic:
                # the star is only claimed on its convergence domain: restrict the path BEFORE running the code
                # (assumptions are not retroactive); star instances come last in this body
                from .. import engine as _E

                if hyps and str(_E.ENG.check(*hyps)) != "sat":
                    continue  # on this path the value lies outside the convergence domain
                for h in hyps:
                    _E.ENG._assert(h)
            st = run(f"star({n})", lambda: R.star(a))
            if st is None:
                continue
            r1 = run(f"star-right({n})", lambda: add(one, mul(a, st)))
            if r1 is not None:
                _same(ctx, f"{T}: star({n}) = 1 + {n}*star({n})", st, r1, hyps=hyps, tol=tol)
            r2 = run(f"star-left({n})", lambda: add(one, mul(st, a)))
            if r2 is not None:
                _same(ctx, f"{T}: star({n}) = 1 + star({n})*{n}", st, r2, hyps=hyps, tol=tol)


@case("C16", "float_extremes", domain="SNum")
def float_extremes(ctx):
    """Concrete IEEE guard (NOT a solver verdict): a few law instances on extreme float scores, where a
    mathematically equivalent rearrangement can overflow or lose everything (e.g. Log addition anchored on the
    smaller operand).  Tolerance 1e-9 relative."""
    from genlm.grammar import semiring as R

    def close(x, y):
        if x == y:
            return True
        if any(isinstance(v, float) and (math.isnan(v) or math.isinf(v)) for v in (x, y)):
            return False
        return abs(x - y) <= 1e-9 * max(1.0, abs(x), abs(y))

    L = R.Log
    vals = [L(0.0), L(-800.0), L(-745.2), L(-1e-9), L(-30.0), L(-700.0)]
    for a in vals:
        for b in vals:
            ok1, s1 = ctx.call(f"Log {a.score}+{b.score}", lambda: a + b, sig="Log:add:exception")
            ok2, s2 = ctx.call(f"Log {b.score}+{a.score}", lambda: b + a, sig="Log:add:exception")
            if ok1 and ok2:
                hi, lo = max(a.score, b.score), min(a.score, b.score)
                want = hi + math.log1p(math.exp(lo - hi))
                ctx.check(f"Log({a.score}) + Log({b.score}) = log(e^a + e^b) and commutes", close(s1.score, want) and close(s2.score, want), detail=f"{s1.score} / {s2.score} vs {want}", sig="float-extremes:Log:add")
            for c in vals[:3]:
                ok3, l = ctx.call("assoc", lambda: (a + b) + c, sig="Log:add:exception")
                ok4, r = ctx.call("assoc", lambda: a + (b + c), sig="Log:add:exception")
                if ok3 and ok4:
                    ctx.check(f"Log: ({a.score}+{b.score})+{c.score} = {a.score}+({b.score}+{c.score})", close(l.score, r.score), detail=f"{l.score} vs {r.score}", sig="float-extremes:Log:assoc")
    for x in [L(-800.0), L(-30.0), L(-0.7), L(-0.2), L(-1e-3)]:
        ok, st = ctx.call(f"Log star({x.score})", x.star, sig="Log:star:exception")
        if ok:
            want = -math.log1p(-math.exp(x.score))
            ok2, rhs = ctx.call("Log one + x*star(x)", lambda: L.one + x * st, sig="Log:star:exception")
            ctx.check(f"Log star({x.score}) = -log(1 - e^x) = one + x*star(x)", close(st.score, want) and ok2 and close(rhs.score, want), detail=f"{st.score} / {rhs.score if ok2 else None} vs {want}", sig="float-extremes:Log:star")
    for T, big in [(R.Real, 1e-300), (R.MaxTimes, 1e-300)]:
        a, b, c = T(big), T(1e300), T(3.0)
        ok, l = ctx.call("assoc", lambda: (a * b) * c, sig=f"{T.__name__}:mul:exception")
        if ok:
            ctx.check(f"{T.__name__}: (1e-300*1e300)*3 = 3", close(l.score, 3.0), detail=str(l.score), sig=f"float-extremes:{T.__name__}")


def jobs(tier, seed):
    out = []
    for T in TYPES:
        n = 5 if T in ("MaxTimes", "MaxPlus") else (12 if T == "Log" else 1)
        for i in range(n):
            prm = dict(type=T, nsym=3, chunk=(i, n))
            if T == "Log" and tier == "quick":
                prm["triples_without_fresh"] = True  # fresh zero'/one' take part in the unary and binary laws only
            out.append(dict(case="laws", params=prm, hashseed=0, timeout=1500))
    out.append(dict(case="float_extremes", params={}, hashseed=0))
    out.append(dict(case="laws", params=dict(type="Real", nsym=2, canary=True), hashseed=0))
    return out


INFO = dict(
    level="other",
    level_text="Bounded symbolic verification of the shipped classes' own operator methods: three symbolic scores per type (reals, or reals >= 0 "
               "for MaxTimes) plus the shared zero/one objects plus freshly constructed equal values; every instance of the nine semiring laws and "
               "of both star equations over that pool is a z3 obligation valid for ALL score values (max/branches fork in the executor). For Log the "
               "scores are log r with r a symbolic positive real (exact log-domain model: numpy's log/exp/log1p/expm1 dispatch to methods that map "
               "onto rational operations on r), so every law of Log -- additive associativity and both star equations included -- is decided too.",
    level_note="Floats are treated as reals (rounding is outside). Star laws carry the convergence hypothesis (x<1; x<=1 for MaxTimes; x<=0 for MaxPlus). "
               "Trusted: CPython, z3, SNum proxy.",
    design_ref="DESIGN.md section 3 C16",
    explanation="The real operator methods of each shipped semiring class are executed on symbolic scores; z3 proves each law instance for all real values.",
    bounds=dict(types=TYPES, symbolic_values_per_type=3, pool="zero, one, fresh zero, fresh one, x0, x1, x2"),
    outside=["IEEE rounding for the solver-decided part (floats are reals; Log scores are exact logarithms); one concrete float guard `float_extremes` on extreme scores is included and labelled as such", "MaxTimes outside scores >= 0", "quick tier: Log triples use the shared zero/one objects and three symbolic values (fresh equal values take part in unary and binary laws only)"],
    assumptions=["scores are reals", "star argument inside the convergence domain"],
)

INFO["technique"] = "symbolic execution of the shipped semiring classes' operators on z3 real scores (exact log-domain model for Log); z3 proves every law instance over a pool of 7 values per type (+1 concrete float guard)"
