"""C03 Prefix weight equals the total weight of all strings with that prefix."""
from .. import oracle as O
from .. import stubs
from ..build import grammar, grammar_weights, make_cfg, oracle_rules
from ..core import case, split_job
from ..shapes import all_strings


@case("C03", "prefix", domain="SW")
def prefix(ctx):
    P = ctx.P
    sk = grammar(P["shape"])
    ws = grammar_weights(ctx, sk)
    orules = oracle_rules(ctx, sk, ws)
    num = ctx.num
    prefixes = [tuple(p) for p in P["prefixes"]]
    # the real agenda runs un-stubbed wherever the system at hand has finitely many derivations
    with stubs.agenda_summary(ctx, when=lambda g: not stubs.finite_system(g)) as used:
        g = make_cfg(ctx, sk, ws)
        for p in prefixes:
            piv = []
            ok, ref = ctx.ref(f"oracle prefix {p}", O.prefix_weight, orules, sk.V, sk.S, p, num, piv)
            if not ok:
                continue
            if "prefix_weight" in P["observe"]:
                okc, v = ctx.call(f"prefix_weight({p})", g.prefix_weight, p, sig="prefix_weight:exception")
                if okc:
                    ctx.eq(f"prefix_weight({p})", v, ref, pivots=piv, sig=f"prefix_weight:{P['shape']}:{''.join(map(str, p))}")
            if "prefix_grammar" in P["observe"]:
                okc, v = ctx.call(f"prefix_grammar({p})", lambda: g.prefix_grammar(p), sig="prefix_grammar:exception")
                if okc:
                    ctx.eq(f"prefix_grammar({p})", v, ref, pivots=piv, sig=f"prefix_grammar:{P['shape']}:{''.join(map(str, p))}")
            if "derivatives" in P["observe"]:
                g2 = make_cfg(ctx, sk, ws)
                okc, v = ctx.call(f"derivatives({p})[-1].treesum()", lambda: g2.derivatives(p)[-1].treesum(), sig="derivatives:exception")
                if okc:
                    ctx.eq(f"derivatives({p})[-1].treesum()", v, ref, pivots=piv, sig=f"derivatives:{P['shape']}:{''.join(map(str, p))}")
        if "derivative" in P["observe"]:
            for a in sorted(sk.V, key=repr):
                g3 = make_cfg(ctx, sk, ws)
                okc, d = ctx.call(f"derivative({a})", g3.derivative, a, sig="derivative:exception")
                if not okc:
                    continue
                for y in [tuple(y) for y in P["suffixes"]]:
                    piv = []
                    ok, ref = ctx.ref(f"oracle {a}+{y}", O.string_weight, orules, sk.V, sk.S, (a,) + y, num, piv)
                    if not ok:
                        continue
                    okc, v = ctx.call(f"derivative({a})({y})", d, y, sig="derivative-call:exception")
                    if okc:
                        ctx.eq(f"derivative({a})({y}) = G({a}{''.join(map(str, y))})", v, ref, pivots=piv, sig=f"derivative:{P['shape']}:{a}:{''.join(map(str, y))}")
        ctx.stub_uses = used["n"]


def jobs(tier, seed):
    out = []
    quick = tier == "quick"
    L = 2 if quick else 3
    shapes = ["G-FIN", "G-LIN", "G-NU", "G-PAL", "G-NUC", "G-INT", "G-TOK"] if quick else ["G-FIN", "G-LIN", "G-NU", "G-PAL", "G-NUC", "G-INT", "G-LR", "G-UC", "G-DUP", "G-NULL3", "G-S1", "G-MUT", "G-DUP2", "G-TOK"]
    for sh in shapes:
        sk = grammar(sh)
        prefixes = [list(x) for x in all_strings(sk.V, L)]
        suffixes = [list(x) for x in all_strings(sk.V, 2)]
        bits = [0, 1] if sk.K >= 7 else ([0] if sk.K >= 5 else [])
        out += split_job(dict(case="prefix", params=dict(shape=sh, prefixes=prefixes, suffixes=suffixes, observe=["prefix_weight", "derivatives"])), bits)
        out += split_job(dict(case="prefix", params=dict(shape=sh, prefixes=prefixes[:3], suffixes=suffixes, observe=["prefix_grammar", "derivative"])), bits)
    out.append(dict(case="prefix", params=dict(shape="G-S1", prefixes=[[], ["a"]], suffixes=[[]], observe=["prefix_weight", "derivative"], canary=True)))
    seeds = [1 + seed % 1000] if quick else [0, 1 + seed % 1000]
    return [dict(j, hashseed=s) for j in out for s in (seeds if not j["params"].get("canary") else seeds[:1])]


INFO = dict(
    level="other",
    level_text="Bounded symbolic verification: prefix_weight, prefix_grammar, derivatives(p)[-1].treesum() and derivative(a)(y) run on grammar skeletons "
               "with symbolic rule weights; z3 proves equality with an independent open-ended inside recursion (sum over ALL completions in closed "
               "form: finite sums for finite languages, Cramer for linearly recursive ones) for all weights. Sub-shapes with finitely many derivations "
               "run the real agenda; recursive ones use the closed-form agenda summary whose contract C08 checks.",
    level_note="Assumes pivots > 0. Non-linear recursion (irrational treesums) is out of bounds. Trusted: CPython, z3, SW proxy, oracle, agenda summary.",
    design_ref="DESIGN.md section 3 C03",
    explanation="Real prefix-weight and derivative constructions on symbolic weights vs. a closed-form sum over all completions; z3 proves equality for all weights.",
    bounds=dict(quick=dict(prefixes="<= 2", skeletons=["G-FIN", "G-LIN", "G-NU", "G-PAL"]), thorough=dict(prefixes="<= 3", skeletons=10)),
    stubs=["agenda summary (closed-form least solution) on recursive systems only"],
    outside=["non-linearly recursive grammars", "prefixes beyond the bound"],
    assumptions=["weights >= 0", "pivots > 0 (finite total weight)"],
)

INFO["technique"] = 'symbolic execution of prefix_weight / prefix_grammar / derivative with z3 real weights; z3 proves equality with a closed-form sum over all completions (Cramer); bounded'
