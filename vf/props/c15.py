"""C15 Algebraic path solver computes closures and least solutions."""
import itertools

from .. import oracle as O
from ..core import case, split_job


def _graph(ctx, n, edges):
    from genlm.grammar.linear import WeightedGraph

    D = ctx.D
    G = WeightedGraph(D.R)
    ws = {}
    for k, (i, j) in enumerate(edges):
        w = D.var(k)
        ws[i, j] = w
        G[i, j] += w
    G.N |= set(range(n))
    return G, ws


def _bool_sccs(n, present):
    reach = [[i == j or (i, j) in present for j in range(n)] for i in range(n)]
    for k in range(n):
        for i in range(n):
            for j in range(n):
                reach[i][j] = reach[i][j] or (reach[i][k] and reach[k][j])
    comps = set()
    for i in range(n):
        comps.add(frozenset(j for j in range(n) if reach[i][j] and reach[j][i]))
    return comps, reach


@case("C15", "closure", domain="SW")
def closure(ctx):
    P = ctx.P
    n = P["n"]
    edges = [tuple(e) for e in P["edges"]]
    D = ctx.D
    T = D.term
    G, ws = _graph(ctx, n, edges)
    A = {e: T(w) for e, w in ws.items() if not D.is_zero_weight(w)}
    piv = []
    if getattr(D, "matrix", False):
        # matrix weights: the closure over the non-commutative semiring is the closure of the real graph on 2n nodes
        # obtained by expanding every node into two (an exact, independent oracle that also covers cycles)
        real = O.Num(ctx.symbolic)
        big = {}
        for (i, j), m4 in A.items():
            for r in range(2):
                for c in range(2):
                    if not O.is_zero(m4[2 * r + c]):
                        big[(i, r), (j, c)] = m4[2 * r + c]
        nodes2 = [(i, r) for i in range(n) for r in range(2)]
        Kb = O.closure(big, nodes2, real, piv)
        K = {(i, j): tuple(Kb[(i, r), (j, c)] for r in range(2) for c in range(2)) for i in range(n) for j in range(n)}
    else:
        K = O.closure(A, range(n), ctx.num, piv)
    tag = P.get("name", f"n{n}")
    checks = P.get("checks", ["scc", "ref", "closure", "solve", "fixpoint", "blocks"])
    ok, K1 = ctx.call("closure_scc_based", G.closure_scc_based, sig="closure_scc_based:exception")
    if ok:
        for i in range(n):
            for j in range(n):
                ctx.eq(f"closure_scc_based[{i},{j}]", K1[i, j], K[i, j], pivots=piv, sig=f"scc:{tag}")
    G2, _ = _rebuild(ctx, n, ws)
    ok, K2 = ctx.call("closure_reference", G2.closure_reference, sig="closure_reference:exception")
    if ok and "ref" in checks:
        for i in range(n):
            for j in range(n):
                ctx.eq(f"closure_reference[{i},{j}]", K2[i, j], K[i, j], pivots=piv, sig=f"ref:{tag}")
    G3, _ = _rebuild(ctx, n, ws)
    ok, C = ctx.call("closure", G3.closure, sig="closure:exception")
    if ok and "closure" in checks:
        for i in range(n):
            for j in range(n):
                ctx.eq(f"closure()[{i},{j}]", C[i, j], K[i, j], pivots=piv, sig=f"closure:{tag}")
    # right-hand sides: symbolic b
    nb = len(edges)
    bs = [D.var(nb + i, positive=True) for i in range(n)]  # right-hand sides: symbolic, always present
    bt = [T(b) for b in bs]
    num = ctx.num
    G4, _ = _rebuild(ctx, n, ws)
    b = D.R.chart()
    for i in range(n):
        b[i] = bs[i]
    ok, xl = ctx.call("solve_left", G4.solve_left, b, sig="solve_left:exception")
    if ok and "solve" in checks:
        for j in range(n):
            ref = num.sum(num.mul(bt[i], K[i, j]) for i in range(n))
            ctx.eq(f"solve_left[{j}] = (b K)[{j}]", xl[j], ref, pivots=piv, sig=f"solve_left:{tag}")
            # fixed-point equation x = xA + b
            rhs = num.add(bt[j], num.sum(num.mul(T(xl[i]), A.get((i, j), num.zero)) for i in range(n)))
            if "fixpoint" in checks:
              ctx.eq(f"solve_left[{j}] satisfies x = xA + b", xl[j], rhs, pivots=piv, sig=f"solve_left_fp:{tag}")
    b = D.R.chart()
    for i in range(n):
        b[i] = bs[i]
    ok, xr = ctx.call("solve_right", G4.solve_right, b, sig="solve_right:exception")
    if ok and "solve" in checks:
        for i in range(n):
            ref = num.sum(num.mul(K[i, j], bt[j]) for j in range(n))
            ctx.eq(f"solve_right[{i}] = (K b)[{i}]", xr[i], ref, pivots=piv, sig=f"solve_right:{tag}")
            rhs = num.add(bt[i], num.sum(num.mul(A.get((i, j), num.zero), T(xr[j])) for j in range(n)))
            if "fixpoint" in checks:
              ctx.eq(f"solve_right[{i}] satisfies x = Ax + b", xr[i], rhs, pivots=piv, sig=f"solve_right_fp:{tag}")
    # the same object again after solve_right: cached blocks must not have been disturbed
    if ok and "solve" in checks:
        b = D.R.chart()
        for i in range(n):
            b[i] = bs[i]
        ok2, xl2 = ctx.call("solve_left after solve_right", G4.solve_left, b, sig="solve_left:exception")
        if ok2:
            for j in range(n):
                ref = num.sum(num.mul(bt[i], K[i, j]) for i in range(n))
                ctx.eq(f"solve_left[{j}] after solve_right on the same graph object", xl2[j], ref, pivots=piv, sig=f"solve_left-after-right:{tag}")
        ok3, K3 = ctx.call("closure_scc_based after the solvers", G4.closure_scc_based, sig="closure_scc_based:exception")
        if ok3 and "scc" in checks:
            for i in range(n):
                for j in range(n):
                    ctx.eq(f"closure_scc_based[{i},{j}] after the solvers on the same graph object", K3[i, j], K[i, j], pivots=piv, sig=f"scc-after-solvers:{tag}")
    # blocks = SCCs, listed in an order compatible with the edges
    present = set(A)
    comps, reach = _bool_sccs(n, present)
    blocks = list(G4.blocks)
    ctx.check("blocks partition the nodes into exactly the SCCs", set(map(frozenset, blocks)) == comps and sum(len(b_) for b_ in blocks) == n,
              detail=f"blocks={blocks} sccs={sorted(map(sorted, comps))}", sig=f"blocks:{tag}")
    pos = {x: k for k, blk in enumerate(blocks) for x in blk}
    bad = [(i, j) for (i, j) in present if pos.get(i, -1) > pos.get(j, -1)]
    ctx.check("block order compatible with the edges (sources first)", not bad, detail=f"edges against the order: {bad}", sig=f"block-order:{tag}")
    bk = G4.buckets
    ctx.check("buckets maps every node to its block", all(x in blocks[bk[x]] for x in range(n)), sig=f"buckets:{tag}")


# the same body over the NON-COMMUTATIVE matrix semiring (acyclic graphs: star is applied to zero only)
case("C15", "closure_nc", domain="SM")(closure)


def _rebuild(ctx, n, ws):
    from genlm.grammar.linear import WeightedGraph

    G = WeightedGraph(ctx.D.R)
    for (i, j), w in ws.items():
        G[i, j] += w
    G.N |= set(range(n))
    return G, ws


FOUR = {
    "nested": [(0, 1), (1, 0), (1, 2), (2, 1), (2, 2), (0, 0)],  # node 3 isolated, nested cycles
    "two-scc": [(0, 1), (1, 0), (1, 2), (2, 3), (3, 2), (0, 3)],
    "chain-loop": [(0, 0), (0, 1), (1, 2), (2, 3), (3, 1)],
}


def jobs(tier, seed):
    out = []
    all3 = [(i, j) for i in range(3) for j in range(3)]
    if tier == "quick":
        # all 3-node graphs: 9 free entries = 512 sub-shapes, split by fixing the presence of... nothing: one job
        out += split_job(dict(case="closure", params=dict(n=3, edges=all3, name="all-3-node", checks=["scc", "ref", "blocks"]), cost=10), [0, 1, 2, 3, 4])
        out += split_job(dict(case="closure", params=dict(n=3, edges=[(0, 0), (0, 1), (1, 0), (1, 2), (2, 2), (2, 0)], name="3-sparse")), [0])
        out += split_job(dict(case="closure", params=dict(n=4, edges=FOUR["nested"], name="4-nested", checks=["scc", "ref", "solve", "blocks"])), [0, 1])
        out.append(dict(case="closure", params=dict(n=2, edges=[(0, 0), (0, 1), (1, 0)], name="canary", canary=True)))
    else:
        # all 3-node graphs: closures, solvers and blocks (the fixed-point equations and closure() are exercised on the sparser skeletons:
        # on dense 3x3 sub-shapes their normal forms cost ~10 s per obligation)
        out += split_job(dict(case="closure", params=dict(n=3, edges=all3, name="all-3-node", checks=["scc", "ref", "solve", "blocks"]), cost=10, timeout=2400), [0, 1, 2, 3, 4, 5])
        out += split_job(dict(case="closure", params=dict(n=3, edges=[(0, 0), (0, 1), (1, 0), (1, 2), (2, 2), (2, 0)], name="3-sparse")), [0])
        out += split_job(dict(case="closure", params=dict(n=3, edges=[(0, 1), (1, 2), (2, 0), (1, 1), (0, 2), (2, 1)], name="3-sparse-b")), [0])
        for k, e in FOUR.items():
            out += split_job(dict(case="closure", params=dict(n=4, edges=e, name=f"4-{k}", checks=["scc", "ref", "solve", "closure", "blocks"]), timeout=2400), [0, 1])
        out.append(dict(case="closure", params=dict(n=2, edges=[(0, 0), (0, 1), (1, 0)], name="canary", canary=True)))
    dag3 = [(0, 1), (0, 2), (1, 2)]
    dag4 = [(0, 1), (0, 2), (1, 2), (1, 3), (2, 3), (0, 3)]
    dag4b = [(3, 2), (2, 1), (1, 0), (3, 0), (2, 0)]
    out.append(dict(case="closure_nc", params=dict(n=3, edges=dag3, name="nc-dag3")))
    out += split_job(dict(case="closure_nc", params=dict(n=4, edges=dag4, name="nc-dag4")), [0, 1])
    out += split_job(dict(case="closure_nc", params=dict(n=4, edges=dag4b, name="nc-dag4-reversed")), [0])
    # cycles over the matrix semiring (star = (I - M)^{-1} of a 2x2 block)
    out.append(dict(case="closure_nc", params=dict(n=2, edges=[(0, 1), (1, 0)], name="nc-2cycle", checks=["scc", "ref", "solve", "blocks"]), timeout=1500))
    out.append(dict(case="closure_nc", params=dict(n=2, edges=[(0, 0), (0, 1)], name="nc-loop", checks=["scc", "ref", "solve", "blocks"]), timeout=1500))
    if tier != "quick":
        out.append(dict(case="closure_nc", params=dict(n=3, edges=[(0, 1), (1, 0), (1, 2)], name="nc-2cycle-tail", checks=["scc", "ref", "solve", "blocks"]), timeout=2400))
    out.append(dict(case="closure_nc", params=dict(n=3, edges=dag3, name="nc-canary", canary=True)))
    seeds = [1 + seed % 1000] if tier == "quick" else [0, 1, 1 + seed % 1000]
    return [dict(j, hashseed=s) for j in out for s in (seeds if not j["params"].get("canary") else seeds[:1])]


INFO = dict(
    level="other",
    level_text="Bounded symbolic verification: closure_scc_based, closure_reference, closure, solve_left, solve_right, blocks and buckets run on ALL "
               "weighted graphs with 3 nodes (9 free edge weights, each possibly zero: 512 shapes) and on 4-node skeletons with nested cycles and an "
               "isolated node, with symbolic right-hand sides; z3 proves entry-wise equality with (I-A)^{-1} computed by Cramer's rule, the "
               "fixed-point equations, and equality with b(I-A)^{-1} / (I-A)^{-1}b for all weights with convergent series; blocks are compared "
               "with Boolean SCCs and the edge order. A second pass runs the same routines over a NON-COMMUTATIVE symbolic semiring (2x2 real "
               "matrices with symbolic entries) on acyclic graphs, so that the operand order of every product is part of the proved identity.",
    level_note="Assumes the oracle's pivots > 0 (rho(A)<1). Trusted: CPython, z3, SW proxy, Cramer oracle. Outside: graphs with more than 4 nodes.",
    design_ref="DESIGN.md section 3 C15",
    explanation="The real closure / solver routines run on symbolic edge weights; z3 proves equality with the Cramer closed form for all weights.",
    bounds=dict(quick=dict(graphs="all 3-node graphs + one 4-node skeleton", hash_seeds=1, note="all-3-node: both closures + blocks; 3-sparse: everything; 4-nested: closures, solvers, blocks"), thorough=dict(graphs="all 3-node graphs + three 4-node skeletons, all observables", hash_seeds=3)),
    outside=["graphs with > 4 nodes", "non-convergent weights"],
    assumptions=["edge weights >= 0", "leading principal minors of I-A positive (series converges)"],
)

INFO["technique"] = 'symbolic execution of the closure/solver routines on all 3-node weighted graphs with z3 real weights and with non-commutative 2x2 matrix weights (block-expansion oracle); z3 proves equality with (I-A)^-1 (Cramer); bounded'
