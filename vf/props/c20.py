"""C20 Local normalisation yields the proportional proper grammar; EOS wrapping."""
import itertools

from .. import oracle as O
from .. import stubs
from ..build import cfg_rules, grammar, grammar_weights, make_cfg, oracle_rules
from ..core import case, split_job
from ..shapes import all_strings


@case("C20", "locally_normalize", domain="SNum")
def locally_normalize(ctx):
    from genlm.grammar.cfglm import locally_normalize as LN

    P = ctx.P
    sk = grammar(P["shape"])
    ws = grammar_weights(ctx, sk)
    orules = oracle_rules(ctx, sk, ws)
    num = ctx.num
    T = ctx.D.term
    strings = [tuple(x) for x in P["strings"]]
    piv = []
    alg = []
    ok, Z = ctx.ref("oracle treesums", O.treesums, orules, sk.V, num, piv, algebraic=alg)
    if not ok:
        return
    nonlinear = bool(alg)
    tol = 1e-6 if (nonlinear and not ctx.symbolic) else 0
    alg = [c for c in alg if c is not True]
    ZS = Z.get(sk.S, num.zero)
    if O.is_zero(ZS):
        ctx.oob("total weight zero", "the property assumes finite positive total weight")
        return
    with stubs.agenda_summary(ctx, when=lambda g: not stubs.finite_system(g), algebraic=True):
        g = make_cfg(ctx, sk, ws)
        okc, ln = ctx.call("locally_normalize", LN, g, sig="locally_normalize:exception")
        if not okc:
            return
        # non-linear recursion: the total weights are unknowns constrained by their own fixed-point equations
        hyp = [ctx.gt0(p) for p in piv] + list(alg)
        # (1) weights of the rules sharing a left-hand side sum to one
        heads = {}
        for r in ln.rules:
            heads[r.head] = num.add(heads.get(r.head, num.zero), T(r.w))
        for h, tot in heads.items():
            ctx.eq_terms(f"rules of {h} sum to one", tot, num.one, hyps=hyp, sig=f"lhs-sum:{P['shape']}:{h}", tol=tol)
        # heads with positive total weight keep their rules
        gen = O.generating_set(orules, sk.V)
        lost = sorted(X for X in {h for _, h, _ in orules if h in gen and not O.is_zero(Z.get(h, num.zero))} if X not in heads)
        ctx.check("every nonterminal with positive total weight keeps its rules", not lost, detail=str(lost), sig="lhs-lost")
        # (2) total weight one
        okt, ts = (False, None) if nonlinear else ctx.call("locally_normalize(..).treesum()", ln.treesum, sig="treesum:exception")
        if nonlinear:
            ctx.oob("total weight one", "needs leastness of the normalised grammar's own non-linear fixed point, which the equations alone do not give")
        if okt:
            ctx.eq("total weight of the normalised grammar is one", ts, num.one, pivots=piv, sig=f"total-one:{P['shape']}")
        # (3) proportionality:  ln(x) * Z = cfg(x)   (normalised grammar evaluated by the oracle)
        lrules = cfg_rules(ctx, ln)
        for x in strings:
            p1, p2 = [], []
            ok1, a = ctx.ref(f"oracle ln {x}", O.string_weight, lrules, sk.V, ln.S, x, num, p1)
            ok2, b = ctx.ref(f"oracle cfg {x}", O.string_weight, orules, sk.V, sk.S, x, num, p2)
            if ok1 and ok2:
                ctx.eq_terms(f"ln({x}) * Z = cfg({x})", num.mul(a, ZS), b, hyps=hyp + [ctx.gt0(p) for p in p1 + p2], sig=f"proportional:{P['shape']}:{''.join(x)}", tol=tol)


@case("C20", "add_EOS", domain="SW")
def add_eos(ctx):
    from genlm.grammar.cfglm import EOS, add_EOS

    P = ctx.P
    sk = grammar(P["shape"])
    ws = grammar_weights(ctx, sk)
    orules = oracle_rules(ctx, sk, ws)
    num = ctx.num
    g = make_cfg(ctx, sk, ws)
    ok, e = ctx.call("add_EOS", add_EOS, g, sig="add_EOS:exception")
    if not ok:
        return
    ctx.check("EOS is a terminal of the new grammar and the old vocabulary is kept", EOS in e.V and set(sk.V) <= set(e.V), sig="add_EOS:vocabulary")
    ctx.check("the input grammar's vocabulary is unchanged", EOS not in g.V, sig="add_EOS:input-mutated")
    erules = cfg_rules(ctx, e)
    V2 = set(sk.V) | {EOS}
    L = P["L"]
    for n in range(L + 1):
        for x in itertools.product(sorted(V2), repeat=n):
            p1, p2 = [], []
            ok1, got = ctx.ref(f"oracle eos {x}", O.string_weight, erules, set(e.V), e.S, x, num, p1)
            if not ok1:
                continue
            if n >= 1 and x[-1] == EOS and EOS not in x[:-1]:
                ok2, ref = ctx.ref(f"oracle cfg {x[:-1]}", O.string_weight, orules, sk.V, sk.S, x[:-1], num, p2)
                if not ok2:
                    continue
            else:
                ref = num.zero
            ctx.eq_terms(f"add_EOS(cfg)({x})", got, ref, hyps=[ctx.gt0(p) for p in p1 + p2], sig=f"add_EOS:{P['shape']}:{len(x)}")
    # and through the real parser
    for x in [tuple(s) for s in P.get("call", [])]:
        okc, v = ctx.call(f"add_EOS(cfg)({x}+EOS)", e, x + (EOS,), sig="add_EOS-call:exception")
        if okc:
            piv = []
            ok2, ref = ctx.ref("oracle", O.string_weight, orules, sk.V, sk.S, x, num, piv)
            if ok2:
                ctx.eq(f"add_EOS(cfg)({x}+EOS) real call", v, ref, pivots=piv, sig=f"add_EOS-call:{P['shape']}")


def jobs(tier, seed):
    out = []
    quick = tier == "quick"
    L = 3 if quick else 4
    for sh in (["G-FIN", "G-LIN", "G-PAL", "G-DUP", "G-REP", "G-CAT", "G-S2"] if quick else ["G-FIN", "G-LIN", "G-PAL", "G-DUP", "G-REP", "G-NU", "G-LR", "G-S1", "G-DEAD", "G-NULL3", "G-MUT", "G-DUP2", "G-CAT", "G-S2", "G-TRI"]):
        sk = grammar(sh)
        strings = [list(x) for x in all_strings(sk.V, L)][:15 if quick else 31]
        bits = [0, 1] if sk.K >= 7 else ([0] if sk.K >= 5 else [])
        out += split_job(dict(case="locally_normalize", params=dict(shape=sh, strings=strings)), bits)
    for sh in (["G-NU", "G-FIN", "G-DUP2", "G-MUT"] if quick else ["G-NU", "G-FIN", "G-DUP2", "G-MUT", "G-PAL", "G-UC", "G-DUP", "G-2CYC"]):
        sk = grammar(sh)
        out += split_job(dict(case="add_EOS", params=dict(shape=sh, L=3 if quick else 4, call=[[], ["a"], ["a", "b"]])), [0] if sk.K >= 7 else [])
    out.append(dict(case="locally_normalize", params=dict(shape="G-S1", strings=[[], ["a"]], canary=True)))
    seeds = [1 + seed % 1000] if quick else [0, 1 + seed % 1000]
    return [dict(j, hashseed=s) for j in out for s in (seeds if not j["params"].get("canary") else seeds[:1])]


INFO = dict(
    level="other",
    level_text="Bounded symbolic verification: the real locally_normalize runs on grammar skeletons with symbolic Float weights (each may be zero; "
               "useless nonterminals with zero total weight arise from zero patterns); z3 proves for all weights with finite positive total weight "
               "that each left-hand side's weights sum to one, that the total weight is one, and that ln(x) * Z = cfg(x) for every string up to the "
               "bound (both grammars evaluated by the oracle). add_EOS: oracle weight of x+EOS equals cfg(x) and every string over V+EOS not ending "
               "in exactly one EOS has weight zero.",
    level_note="Finite sub-shapes run the real agenda (tolerance cut applies: intermediate updates in (0,1e-12] are outside); recursive ones use the agenda "
               "summary checked by C08. Assumes pivots > 0. Floats are reals.",
    design_ref="DESIGN.md section 3 C20",
    explanation="Real locally_normalize/add_EOS on symbolic weights; z3 proves per-head normalisation, total weight one and proportionality for all weights.",
    bounds=dict(quick=dict(strings="<= 3 (15)", skeletons=["G-FIN", "G-LIN", "G-PAL", "G-DUP"]), thorough=dict(strings="<= 4 (31)", skeletons=10)),
    stubs=["agenda summary on recursive systems"],
    outside=["for NON-LINEAR recursion (total weights are unknowns constrained by their fixed-point equations): 'total weight of the normalised grammar is one' is not decided (needs leastness), per-head normalisation and proportionality are", "IEEE rounding", "agenda updates within (0, 1e-12]"],
    assumptions=["weights >= 0", "finite positive total weight (pivots > 0)"],
)

INFO["technique"] = 'symbolic execution of locally_normalize / add_EOS with z3 real weights (algebraic unknowns for non-linear total weights); z3 proves per-head normalisation, total weight one and proportionality; bounded'
