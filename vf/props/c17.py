"""C17 Automaton-to-grammar and byte-level conversions preserve weights."""
import itertools

import z3

from .. import oracle as O
from .. import strenc as SE
from ..build import automaton, automaton_weights, cfg_rules, grammar, grammar_weights, machine_view, make_cfg, make_wfsa, oracle_machine, oracle_rules
from ..core import case, split_job
from ..shapes import EPS, all_strings


def _alphabet(sk):
    return sorted({a for (_, a, _) in sk.arcs if a != EPS})


@case("C17", "to_cfg", domain="SW")
def to_cfg(ctx):
    P = ctx.P
    num = ctx.num
    sk = automaton(P["shape"])
    ws = automaton_weights(ctx, sk, always=P.get("always", ()))
    om = oracle_machine(ctx, sk, ws)
    strings = [tuple(x) for x in P["strings"]]
    for rec in ("right", "left"):
        m = make_wfsa(ctx, sk, ws)
        ok, g = ctx.call(f"to_cfg({rec})", m.to_cfg, recursion=rec, sig=f"to_cfg:{rec}:exception")
        if not ok:
            continue
        rules = cfg_rules(ctx, g)
        for x in strings:
            p1, p2 = [], []
            ref = O.wfsa_weight(*om, x, num, p1)
            okr, got = ctx.ref(f"oracle grammar {x}", O.string_weight, rules, set(g.V), g.S, x, num, p2)
            if okr:
                ctx.eq_terms(f"to_cfg({rec}): weight of {x}", got, ref, hyps=[ctx.gt0(p) for p in p1 + p2], sig=f"to_cfg:{rec}:{P['shape']}:{''.join(map(str, x))}")


@case("C17", "from_string_to_cfg", domain="SW")
def from_string_to_cfg(ctx):
    "automata built by the library's own from-string constructors: state names coincide with alphabet symbols"
    from genlm.grammar.wfsa.base import WFSA

    P = ctx.P
    num = ctx.num
    D = ctx.D
    w = D.var(0, positive=True)
    wt = D.term(w)
    for s in [tuple(x) for x in P["sources"]]:
        for rec in ("right", "left"):
            m = WFSA.from_string(s, D.R, w)
            ok, g = ctx.call(f"from_string({s}).to_cfg({rec})", m.to_cfg, recursion=rec, sig=f"from_string.to_cfg:{rec}:exception")
            if not ok:
                continue
            rules = cfg_rules(ctx, g)
            for x in [tuple(x) for x in P["strings"]]:
                okr, got = ctx.ref("oracle", O.string_weight, rules, set(g.V), g.S, x, num, [])
                if okr:
                    ctx.eq_terms(f"from_string({''.join(s)!r}, w).to_cfg({rec}): weight of {''.join(x)!r}", got, wt if x == s else num.zero,
                                 sig=f"from_string.to_cfg:{rec}:{''.join(s)}:{''.join(x)}")
            okc, v = ctx.call("real call", g, s, sig="from_string.to_cfg:call:exception")
            if okc:
                ctx.eq(f"from_string({''.join(s)!r}, w).to_cfg({rec})({''.join(s)!r}) real parser", v, wt, sig=f"from_string.to_cfg:{rec}:call:{''.join(s)}")


def _enc(x):
    return tuple(b for a in x for b in a.encode("utf-8"))


@case("C17", "wfsa_to_bytes", domain="SW")
def wfsa_to_bytes(ctx):
    P = ctx.P
    num = ctx.num
    sk = automaton(P["shape"])
    ws = automaton_weights(ctx, sk, always=P.get("always", ()))
    om = oracle_machine(ctx, sk, ws)
    m = make_wfsa(ctx, sk, ws)
    ok, bm = ctx.call("to_bytes", m.to_bytes, sig="wfsa.to_bytes:exception")
    if not ok:
        return
    view = machine_view(ctx, bm)
    strings = [tuple(x) for x in P["strings"]]
    seen = set()
    for x in strings:
        b = _enc(x)
        p1, p2 = [], []
        ref = O.wfsa_weight(*om, x, num, p1)
        got = O.wfsa_weight(*view, b, num, p2)
        ctx.eq_terms(f"to_bytes: weight of utf8({''.join(x)!r})", got, ref, hyps=[ctx.gt0(p) for p in p1 + p2], sig=f"wfsa.to_bytes:{P['shape']}:weight")
        seen.add(b)
    # byte strings that are not an encoding: truncated multi-byte characters
    for x in strings:
        b = _enc(x)
        for k in range(1, len(b)):
            t = b[:k]
            if t in seen:
                continue
            try:
                bytes(t).decode("utf-8")
                continue
            except UnicodeDecodeError:
                pass
            seen.add(t)
            p2 = []
            got = O.wfsa_weight(*view, t, num, p2)
            ctx.eq_terms(f"to_bytes: truncated encoding {bytes(t)!r} has weight zero", got, num.zero, hyps=[ctx.gt0(p) for p in p2], sig=f"wfsa.to_bytes:{P['shape']}:truncated")


@case("C17", "bytes_to_cfg", domain="SW")
def bytes_to_cfg(ctx):
    "the chain the Lark front-end uses: to_bytes() then to_cfg(recursion): byte strings keep the symbol strings' weights"
    P = ctx.P
    num = ctx.num
    sk = automaton(P["shape"])
    ws = automaton_weights(ctx, sk, always=P.get("always", ()))
    om = oracle_machine(ctx, sk, ws)
    strings = [tuple(x) for x in P["strings"]]
    for rec in ("right", "left"):
        m = make_wfsa(ctx, sk, ws)
        ok, g = ctx.call(f"to_bytes().to_cfg({rec})", lambda: m.to_bytes().to_cfg(recursion=rec), sig=f"bytes_to_cfg:{rec}:exception")
        if not ok:
            continue
        rules = cfg_rules(ctx, g)
        seen = set()
        for x in strings:
            b = _enc(x)
            p1, p2 = [], []
            ref = O.wfsa_weight(*om, x, num, p1)
            okr, got = ctx.ref("oracle grammar", O.string_weight, rules, set(g.V), g.S, b, num, p2)
            if okr:
                ctx.eq_terms(f"to_bytes().to_cfg({rec}): weight of utf8({''.join(x)!r})", got, ref, hyps=[ctx.gt0(p) for p in p1 + p2], sig=f"bytes_to_cfg:{rec}:{P['shape']}")
            seen.add(b)
        for x in strings:
            b = _enc(x)
            for t in [b[:k] for k in range(1, len(b))] + [tuple(c for c in b if c != 0)]:
                if t in seen or not t:
                    continue
                seen.add(t)
                try:
                    dec = tuple(bytes(t).decode("utf-8"))
                except UnicodeDecodeError:
                    dec = None
                p1, p2 = [], []
                ref = O.wfsa_weight(*om, dec, num, p1) if dec is not None else num.zero
                okr, got = ctx.ref("oracle grammar", O.string_weight, rules, set(g.V), g.S, t, num, p2)
                if okr:
                    ctx.eq_terms(f"to_bytes().to_cfg({rec}): weight of bytes {list(t)}", got, ref, hyps=[ctx.gt0(p) for p in p1 + p2], sig=f"bytes_to_cfg:{rec}:{P['shape']}:other")


def _bool_eps_close(states, eps_arcs):
    cl = {q: {q} for q in states}
    ch = True
    while ch:
        ch = False
        for i, j in eps_arcs:
            for q in states:
                if i in cl[q] and j not in cl[q]:
                    cl[q].add(j)
                    ch = True
    return cl


def _nfa_tables(arcs, inits, finals):
    "epsilon-free view: chars_of[(i, j)] = set of one-char labels; initial set closed under epsilon; finals"
    states = sorted({q for a in arcs for q in (a[0], a[2])} | set(inits) | set(finals), key=repr)
    cl = _bool_eps_close(states, [(i, j) for i, a, j in arcs if a == EPS])
    chars_of = {}
    for i, a, j in arcs:
        if a == EPS:
            continue
        for k in cl[j]:
            chars_of.setdefault((i, k), set()).add(a)
    I = set()
    for q in inits:
        I |= cl[q]
    return chars_of, I, set(finals)


@case("C17", "wfsa_to_bytes_support", domain="Raw")
def wfsa_to_bytes_support(ctx):
    """For a SYMBOLIC byte string b (z3 sequence over code points 0..255): the byte automaton returned by the
    real code accepts b  <=>  b is the UTF-8 encoding of an accepted symbol string (reference byte automaton
    built here from str.encode).  One or several automata merged (distinct user state names)."""
    from genlm.grammar.semiring import Boolean, Float
    from genlm.grammar.wfsa.base import WFSA

    P = ctx.P
    L = P["L"]
    names = P["shapes"]
    real_arcs, real_I, real_F = [], [], []
    ref_arcs, ref_I, ref_F = [], [], []
    fresh = itertools.count()
    for idx, sh in enumerate(names):
        sk = automaton(sh)
        m = WFSA(Float)
        tag = lambda q, idx=idx: (idx, q) if P.get("distinct_names", True) else q
        for (i, a, j) in sk.arcs:
            m.add_arc(tag(i), a, tag(j), 0.5)
            if a == EPS:
                ref_arcs.append((tag(i), EPS, tag(j)))
            else:
                bs = a.encode("utf-8")
                cur = tag(i)
                for k, b in enumerate(bs):
                    nxt = tag(j) if k == len(bs) - 1 else ("ref-chain", next(fresh))
                    ref_arcs.append((cur, chr(b), nxt))
                    cur = nxt
        for q in sk.init:
            m.add_I(tag(q), 1.0)
            if idx == 0 or not P.get("start_at_first"):
                ref_I.append(tag(q))
        for q in sk.final:
            m.add_F(tag(q), 0.5)
            ref_F.append(tag(q))
        ok, bm = ctx.call(f"{sh}.to_bytes()", m.to_bytes, sig="wfsa.to_bytes:exception")
        if not ok:
            return
        # merged the way LarkStuff merges terminals: by state name
        for i, a, j, w in bm.arcs():
            if w != 0:
                real_arcs.append((i, EPS if a == EPS else chr(a), j))
        if idx == 0 or not P.get("start_at_first"):
            real_I += [q for q, w in bm.start.items() if w != 0]
        real_F += [q for q, w in bm.stop.items() if w != 0]
    label = f"byte automaton of {'+'.join(names)} accepts exactly the UTF-8 encodings (all byte strings up to {L})"
    c1, I1, F1 = _nfa_tables(real_arcs, real_I, real_F)
    c2, I2, F2 = _nfa_tables(ref_arcs, ref_I, ref_F)
    if not ctx.symbolic:
        bs = ctx.D.values["b"]

        def run(c, I, F):
            cur = set(I)
            for ch in bs:
                cur = {j for (i, j), cs in c.items() if i in cur and ch in cs}
            return bool(cur & F)

        a1, a2 = run(c1, I1, F1), run(c2, I2, F2)
        ctx.check(label, a1 == a2, detail=f"bytes {[ord(c) for c in bs]}: real byte automaton accepts={a1}, encodings of the accepted symbol strings={a2}", sig=f"wfsa.to_bytes:support:{'+'.join(names)}")
        return
    s = z3.String("b")
    acc1 = SE.unroll_nfa(s, L, None, I1, F1, c1)
    acc2 = SE.unroll_nfa(s, L, None, I2, F2, c2)
    byte = z3.Range(chr(0), chr(255))
    f = z3.And(z3.Length(s) <= L, z3.InRe(s, z3.Star(byte)), acc1 != acc2)
    if P.get("canary"):
        f = z3.And(z3.Length(s) <= L, z3.InRe(s, z3.Star(byte)), acc1 != z3.And(acc2, z3.Length(s) > 1))
    ctx.unsat(label, f, decode=lambda mdl: {"b": SE.z3_str(mdl, s)}, sig=f"wfsa.to_bytes:support:{'+'.join(names)}", vars=[s])


@case("C17", "cfg_to_bytes", domain="SW")
def cfg_to_bytes(ctx):
    P = ctx.P
    num = ctx.num
    sk = grammar(P["shape"])
    ws = grammar_weights(ctx, sk)
    orules = oracle_rules(ctx, sk, ws)
    g = make_cfg(ctx, sk, ws)
    ok, bg = ctx.call("CFG.to_bytes", g.to_bytes, sig="cfg.to_bytes:exception")
    if not ok:
        return
    brules = cfg_rules(ctx, bg)
    L = P["L"]
    by_enc = {}
    for x in all_strings(sk.V, L):
        by_enc.setdefault(_enc(x), []).append(x)
    maxb = P.get("max_bytes", 7)
    targets = {b for b in by_enc if len(b) <= maxb}
    extra = set()
    for b in list(targets):
        for k in range(1, len(b)):
            if b[:k] not in by_enc:
                extra.add(b[:k])
    for b in sorted(targets):
        piv = []
        ref = num.zero
        oob = False
        # all symbol strings (any length) with this encoding: bounded by len(b) symbols
        for x in all_strings(sk.V, len(b)):
            if _enc(x) == b:
                okr, gx = ctx.ref("oracle", O.string_weight, orules, sk.V, sk.S, x, num, piv)
                if not okr:
                    oob = True
                    break
                ref = num.add(ref, gx)
        if oob:
            continue
        p2 = []
        okr, got = ctx.ref("oracle bytes", O.string_weight, brules, set(bg.V), bg.S, b, num, p2)
        if okr:
            ctx.eq_terms(f"CFG.to_bytes: weight of {bytes(b)!r} = total weight of the symbol strings it encodes", got, ref,
                         hyps=[ctx.gt0(p) for p in piv + p2], sig=f"cfg.to_bytes:{P['shape']}:weight")
    for b in sorted(extra):
        p2 = []
        okr, got = ctx.ref("oracle bytes", O.string_weight, brules, set(bg.V), bg.S, b, num, p2)
        if okr:
            ctx.eq_terms(f"CFG.to_bytes: {bytes(b)!r} is not an encoding of a string of terminals: weight zero", got, num.zero, hyps=[ctx.gt0(p) for p in p2],
                         sig=f"cfg.to_bytes:{P['shape']}:non-encoding")


def jobs(tier, seed):
    out = []
    quick = tier == "quick"
    for sh, bits in ([("A-EPS2", [0]), ("A-MB", [0, 1, 2]), ("A-S1", [])] if quick else [("A-EPS2", [0]), ("A-MB", [0, 1, 2, 3]), ("A-S1", []), ("A-EPS", [0, 1, 2]), ("A-DAG", [0, 1])]):
        sk = automaton(sh)
        strings = [list(x) for x in all_strings(_alphabet(sk), 2 if sh == "A-MB" else 3)]
        alw = list(range(len(sk.arcs), sk.K))
        out += split_job(dict(case="to_cfg", params=dict(shape=sh, strings=strings, always=alw)), bits)
    out.append(dict(case="from_string_to_cfg", params=dict(sources=[[], ["a"], ["a", "b"], ["a", "a"], ["b", "a", "b"]],
                                                           strings=[list(x) for x in all_strings(["a", "b"], 3)])))
    for sh, bits in [("A-MB", [0, 1, 2])]:
        sk = automaton(sh)
        strings = [list(x) for x in all_strings(_alphabet(sk), 2)]
        alw = list(range(len(sk.arcs), sk.K))
        out += split_job(dict(case="wfsa_to_bytes", params=dict(shape=sh, strings=strings, always=alw)), bits)
    for sh, bits in ([("A-NUL", [0])] if quick else [("A-NUL", [0]), ("A-MB", [0, 1, 2, 3])]):
        sk = automaton(sh)
        strings = [list(x) for x in all_strings(_alphabet(sk), 3 if sh == "A-NUL" else 2)]
        alw = list(range(len(sk.arcs), sk.K))
        out += split_job(dict(case="bytes_to_cfg", params=dict(shape=sh, strings=strings, always=alw)), bits)
    Lb = 7 if quick else 9
    out.append(dict(case="wfsa_to_bytes_support", params=dict(shapes=["A-MB"], L=Lb), timeout=900))
    out.append(dict(case="wfsa_to_bytes_support", params=dict(shapes=["A-MB4"], L=Lb), timeout=900))
    out.append(dict(case="wfsa_to_bytes_support", params=dict(shapes=["A-NUL"], L=Lb), timeout=900))
    # two converted automata in one machine, entered through the first one only (a grammar whose start symbol reaches terminal A)
    out.append(dict(case="wfsa_to_bytes_support", params=dict(shapes=["A-MB2", "A-MB3"], L=Lb, start_at_first=True), timeout=900))
    out.append(dict(case="wfsa_to_bytes_support", params=dict(shapes=["A-MB2", "A-MB3"], L=Lb), timeout=900))
    out.append(dict(case="wfsa_to_bytes_support", params=dict(shapes=["A-MB"], L=4, canary=True)))
    for sh in ["G-MB"]:
        out += split_job(dict(case="cfg_to_bytes", params=dict(shape=sh, L=2 if quick else 3, max_bytes=7 if quick else 9)), [0, 1])
    seeds = [1 + seed % 1000] if quick else [0, 1 + seed % 1000]
    return [dict(j, hashseed=s) for j in out for s in (seeds if not j["params"].get("canary") else seeds[:1])]


INFO = dict(
    level="other",
    level_text="Bounded symbolic verification: to_cfg(recursion in {left,right}) on automaton skeletons with symbolic weights (epsilon arcs, state names "
               "equal to alphabet symbols, machines built by WFSA.from_string): the produced grammar is evaluated by the derivation-sum oracle and z3 "
               "proves equality with the path-sum oracle for all weights. WFSA.to_bytes / CFG.to_bytes: (i) weights -- for every symbol string up to "
               "the bound the byte string carries the total weight of the symbol strings with that encoding, truncated multi-byte characters get zero "
               "(identities for all weights); (ii) support -- for a SYMBOLIC byte string (z3 sequence over code points 0..255, |b| <= L) the byte "
               "automaton produced by the real code accepts b iff a reference byte automaton built from str.encode does, for one automaton and for "
               "two automata merged by state name (as the Lark front-end merges terminals).",
    level_note="Alphabets mix 1-,2-,3-,4-byte characters with shared byte prefixes and multi-character terminals. Trusted: CPython str.encode, z3 sequence theory, oracles.",
    design_ref="DESIGN.md section 3 C17",
    explanation="Real conversions on symbolic weights vs oracles; byte-level support decided by z3 for a symbolic byte string.",
    bounds=dict(quick=dict(symbol_strings="<= 2-3", byte_strings="<= 7"), thorough=dict(symbol_strings="<= 3", byte_strings="<= 9")),
    outside=["byte strings longer than L", "alphabets outside the catalogue"],
    assumptions=["weights >= 0", "pivots > 0"],
)

INFO["technique"] = 'symbolic execution of to_cfg / to_bytes with z3 real weights against oracles; byte-level support decided by z3 for a symbolic byte string (sequence theory); bounded'
