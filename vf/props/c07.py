"""C07 Normal forms satisfy their structural postconditions."""
from ..core import case
from . import c06


@case("C07", "structure", domain="SW")
def structure(ctx):
    c06._run(ctx, "structure")


def jobs(tier, seed):
    js = c06.jobs(tier, seed, mode="structure")
    extra = []
    if True:
        from ..core import split_job

        for sh in ["G-DEAD", "G-DUP", "G-CAT", "G-S2"] + (["G-FIN", "G-LIN"] if tier != "quick" else []):
            for grp in (["trim", "cotrim", "cnf"], ["nullaryremove", "unarycycleremove"]):
                extra += split_job(dict(case="structure", params=dict(shape=sh, strings=[], transforms=grp), hashseed=js[0]["hashseed"]), [0])
    return js + extra


INFO = dict(
    level="exploration",
    level_text="Bounded exhaustive exploration driven by the solver: the same symbolic runs as C06; on each control path (one zero/non-zero weight "
               "pattern, i.e. one concrete sub-grammar, with closure entries that vanish decided by z3) the output rule list is checked against "
               "independent Boolean reference sets: CNF rule forms, no nullary/unary/unary-cycle, arity, start symbol and terminal placement, and "
               "after trimming every symbol generating and reachable, empty language => no rules.",
    level_note="The solver's universal quantifier covers the weight values (which shape arises for which weights); shapes are the sub-shape lattices "
               "of the catalogue including non-generating start symbols and useless symbols.",
    design_ref="DESIGN.md section 3 C07",
    explanation="Structural postconditions of each normal form checked on every sub-shape path of the symbolic runs.",
    rule="one evaluation per (skeleton sub-shape path, transformation, postcondition); distinct because paths are distinct zero patterns",
    bounds=dict(quick=dict(skeletons=["G-NU", "G-UC", "G-NULL3", "G-DUP", "G-DEAD"]), thorough=dict(skeletons=13)),
    outside=["shapes outside the catalogue's sub-shape lattices"],
    assumptions=["weights >= 0"],
)

INFO["technique"] = 'solver-driven symbolic execution of the transformations (one path per zero pattern / vanishing closure entry decided by z3); structural postconditions against Boolean reference sets; bounded'
