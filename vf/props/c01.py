"""C01 Next-token mask is exactly the set of viable continuations."""
import itertools

from .. import oracle as O
from ..build import grammar, grammar_weights, make_cfg, oracle_rules
from ..core import case, split_job
from ..shapes import all_strings


@case("C01", "mask", domain="SNum")
def mask(ctx):
    from genlm.grammar.cfglm import EOS, BoolCFGLM
    from genlm.grammar.semiring import Boolean

    P = ctx.P
    D = ctx.D
    sk = grammar(P["shape"])
    if P.get("signed"):
        ws = [D.svar(k) for k in range(sk.K)]  # any real: negative and zero both mean "absent"
        present = None
    else:
        ws = grammar_weights(ctx, sk)
    ren = None
    if P.get("rename"):
        m = dict((a, tuple(b) if isinstance(b, list) else b) for a, b in P["rename"])
        ren = lambda x: m.get(x, x)
    contexts = [tuple(c) for c in P["contexts"]]
    V = sorted(sk.V)
    for alg in P["algs"]:
        if P.get("boolean_input"):
            g = make_cfg(ctx, sk, ws, perm=P.get("perm"), rename=ren, R=Boolean, wmap=lambda w: Boolean(w > 0))
        else:
            g = make_cfg(ctx, sk, ws, perm=P.get("perm"), rename=ren)
        ok, lm = ctx.call(f"BoolCFGLM(alg={alg})", BoolCFGLM, g, alg=alg, sig=f"{alg}:construct:exception")
        if not ok:
            continue
        # which rules are present is now decided (x > 0 was branched on): read it off the model's grammar input
        live = []
        for w, (h, b) in zip(ws, sk.rules):
            pos = bool(w > 0)  # decided already on this path (cached decision), no new fork
            live.append((1 if pos else 0, h, b))
        S1 = ("<S'>",)
        rules_eos = live + [(1, S1, (sk.S, EOS))]
        V2 = set(sk.V) | {EOS}
        # every context once in order of increasing length, then all of them again in reverse order on the
        # SAME object (a parent context re-queried after its children must give the same mask)
        for rnd, c in [(0, c) for c in contexts] + [(1, c) for c in reversed(contexts)]:
            okc, p = ctx.call(f"{alg}.p_next({c})", lm.p_next, c, sig=f"{alg}:p_next:exception")
            if not okc:
                continue
            got = {t for t in p.keys() if p[t] != 0}
            want = set()
            for t in V:
                if O.bool_viable_prefix(rules_eos, V2, S1, c + (t,)):
                    want.add(t)
            if EOS not in c and O.bool_member(live, set(sk.V), sk.S, c):
                want.add(EOS)
            if P.get("canary"):
                want = want ^ {V[0]}
            ctx.check(f"{alg}: mask after {c}" + (" (re-queried after longer contexts)" if rnd else ""), got == want, detail=f"offered {sorted(got)} expected {sorted(want)}",
                      sig=f"mask:{alg}:{P['shape']}:{''.join(c)}")
            ctx.check(f"{alg}: weights are 1", all(p[t] == 1 for t in got), sig=f"mask-values:{alg}")


def jobs(tier, seed):
    from genlm.grammar.cfglm import EOS

    out = []
    quick = tier == "quick"
    L = 3 if quick else 4
    shapes = ["G-NU", "G-PAL", "G-UC", "G-DUP", "G-LR", "G-NULL3", "G-NB"] if quick else ["G-NU", "G-PAL", "G-UC", "G-DUP", "G-LR", "G-NULL3", "G-NB", "G-DEAD", "G-CAT", "G-FIN", "G-TRI", "G-MUT", "G-NUC", "G-HEADLESS"]
    for sh in shapes:
        sk = grammar(sh)
        contexts = [list(x) for x in all_strings(sk.V, L if len(sk.V) <= 2 else L - 1)]
        contexts += [[EOS], ["a", EOS], [EOS, "a"]]
        bits = [0, 1, 2] if sk.K >= 7 else [0, 1]
        for alg in ["earley", "cky"]:
            out += split_job(dict(case="mask", params=dict(shape=sh, contexts=contexts, algs=[alg])), bits)
    # sign handling (negative = absent), Boolean input grammars, rule order, renaming
    out.append(dict(case="mask", params=dict(shape="G-S2", contexts=[list(x) for x in all_strings(["a", "b"], 2)], algs=["earley", "cky"], signed=True)))
    for sh in (["G-NU"] if quick else ["G-NU", "G-UC", "G-LR"]):
        sk = grammar(sh)
        contexts = [list(x) for x in all_strings(sk.V, 2)]
        K = sk.K
        out += split_job(dict(case="mask", params=dict(shape=sh, contexts=contexts, algs=["earley", "cky"], perm=list(reversed(range(K))))), [0, 1])
        out += split_job(dict(case="mask", params=dict(shape=sh, contexts=contexts, algs=["earley", "cky"], boolean_input=True)), [0, 1])
        nts = sorted({h for h, _ in sk.rules})
        out += split_job(dict(case="mask", params=dict(shape=sh, contexts=contexts, algs=["earley", "cky"], rename=[(X, f"Q{len(nts) - i}") for i, X in enumerate(nts)])), [0, 1])
    lc = grammar("G-LC3")
    ctxs = [list(x) for x in all_strings(lc.V, 2)]
    import random as _r

    rnd = _r.Random(7)
    orders = [None, list(reversed(range(lc.K)))] + [rnd.sample(range(lc.K), lc.K) for _ in range(4 if quick else 10)]
    for pm in orders:
        out.append(dict(case="mask", params=dict(shape="G-LC3", contexts=ctxs, algs=["earley", "cky"], perm=pm, fixed={str(k): 1 for k in range(lc.K)})))
    out.append(dict(case="mask", params=dict(shape="G-S1", contexts=[[], ["a"]], algs=["earley"], canary=True)))
    seeds = [0, 1 + seed % 1000] if quick else [0, 1, 2, 1 + seed % 1000]
    return [dict(j, hashseed=s) for j in out for s in (seeds if not j["params"].get("canary") else seeds[:1])]


INFO = dict(
    level="exploration",
    level_text="Bounded exhaustive exploration driven by the solver: BoolCFGLM(cfg, alg).p_next(ctx) for alg in {earley, cky} runs on grammar skeletons "
               "whose rule weights are symbolic reals mapped through Boolean(x > 0) exactly as the library does (z3 decides the sign tests; zero and "
               "negative both mean absent), so each skeleton contributes its whole sub-grammar lattice (nullable, unary-cyclic, useless symbols, empty "
               "language); for every context up to the bound -- viable or not, also containing EOS -- the offered token set is compared with an "
               "independent Boolean viable-prefix decision (fixed point over span / open-end items) and EOS with plain membership. Every context is "
               "queried once in order of increasing length and then again in reverse order on the same object.",
    level_note="The solver's universal quantifier is over the weight values only; grammars, contexts, rule orders, renamings and hash seeds are bounded "
               "enumerations (hash seed sampled). Trusted: CPython, z3, SNum proxy, Boolean reference.",
    design_ref="DESIGN.md section 3 C01",
    explanation="Mask of the Boolean grammar LM vs an independent viable-prefix decision on every sub-grammar and context within the bounds.",
    rule="one evaluation per (sub-grammar path, back-end, context); non-trivial = the check ran (both empty and non-empty masks count); distinct by construction",
    bounds=dict(quick=dict(contexts="<= 3 over V plus three EOS-containing", skeletons=["G-NU", "G-PAL", "G-UC", "G-DUP", "G-LR", "G-NULL3"], hash_seeds=2),
                thorough=dict(contexts="<= 4", skeletons=11, hash_seeds=4)),
    outside=["contexts beyond the bound", "grammars outside the catalogue's sub-shape lattices", "hash seeds beyond the sampled ones"],
    assumptions=["weights are reals; present iff > 0"],
)

INFO["technique"] = 'solver-driven symbolic execution of BoolCFGLM over symbolic rule weights (z3 decides the sign tests / sub-grammar paths); masks compared with an independent Boolean viable-prefix fixed point; bounded'
