"""C19 Character- and byte-level grammars built from Lark grammars."""
import itertools
import re
import warnings

import z3

from .. import strenc as SE
from ..core import case

GRAMMARS = {
    "paren": dict(src='start: "(" start ")" | NAME\nNAME: /[a-c]+/\n%ignore " "\n', charset="abc() x"),
    "items": dict(src='start: item+\nitem: "a" | "b" "c"?\n', charset="abcx"),
    "sum": dict(src='start: NUM ("+" NUM)*\nNUM: /[0-2]+/\n', charset="012+ a"),
    "twobyte": dict(src='start: A "x" | B "y"\nA: "é"\nB: "ü"\n', charset="éüxya"),
    "case": dict(src='start: "ab"i "c"\n', charset="abABcC x"),
    "sharp": dict(src='start: "ß"i "x"\n', charset="ßSsxẞ"),
    "ignore2": dict(src='start: "a" "b"*\n%ignore " "\n%ignore /#[ab]*;/\n', charset="ab #;x"),
    "opt": dict(src='start: "a"? B\nB: /b+/ | "c"\n', charset="abcx"),
    "mb": dict(src='start: W+\nW: /[é€a]/\n', charset="é€ab𝄞"),
    "mb3": dict(src='start: W+ "x"\nW: /[日本€ア]/ | "℃"\n', charset="日本€℃アx"),
    "samepat": dict(src='start: A B | X Y\nA: "ab"\nB: "ab"i\nX: "c+"\nY: /c+/\n', charset="abABc+"),
}


def _lark(src):
    from genlm.grammar.lark_interface import LarkStuff

    return LarkStuff(src)


def _terminal_sequences(ls, n):
    "all terminal-name sequences of length <= n derivable from `start` in Lark's compiled rules"
    rules = []
    for r in ls.rules:
        rules.append((r.origin.name, [(y.name, y.is_term) for y in r.expansion]))
    lang = {}
    heads = {h for h, _ in rules}
    for h in heads:
        lang[h] = set()
    ch = True
    while ch:
        ch = False
        for h, body in rules:
            acc = {()}
            for name, is_term in body:
                nxt = set()
                opts = {(name,)} if is_term else lang.get(name, set())
                for a in acc:
                    for b in opts:
                        if len(a) + len(b) <= n:
                            nxt.add(a + b)
                acc = nxt
                if not acc:
                    break
            if not acc <= lang[h]:
                lang[h] |= acc
                ch = True
    return sorted(lang.get("start", set()))


@case("C19", "lark", domain="Raw")
def lark_case(ctx):
    P = ctx.P
    spec = GRAMMARS[P["grammar"]]
    charset = set(spec["charset"])
    rec = P.get("recursion", "right")
    level = P["level"]
    L = P["L"]
    with warnings.catch_warnings():
        warnings.simplefilter("ignore")
        ok, ls = ctx.call("LarkStuff", _lark, spec["src"], sig="LarkStuff:exception")
        if not ok:
            return
        if P.get("other_level_first"):
            # the same LarkStuff object is asked for the OTHER level first (its result is discarded)
            g0 = ls.byte_cfg if level == "char" else ls.char_cfg
            ctx.call("other level first", g0, charset=charset, recursion=rec, sig="other-level:exception")
        f = ls.char_cfg if level == "char" else ls.byte_cfg
        ok, cfg = ctx.call(f"{level}_cfg({rec})", f, charset=charset, recursion=rec, sig=f"{level}_cfg:exception")
    if not ok:
        return
    tag = f"{P['grammar']}:{level}:{rec}" + (":after-other-level" if P.get("other_level_first") else "")
    tpat = {t.name: t.pattern.to_regexp() for t in ls.terminals}
    ign = sorted(ls.ignore_terms)
    seqs = _terminal_sequences(ls, L)
    label = f"{level}-level grammar of {P['grammar']!r} ({rec} recursion) accepts exactly the substitution language (all strings up to {L})"
    if not ctx.symbolic and "s" in ctx.D.values:
        text = ctx.D.values["s"]
        if level == "byte":
            data = tuple(ord(c) for c in text)
            w = cfg(data)
            try:
                dec = bytes(data).decode("utf-8")
            except UnicodeDecodeError:
                dec = None
        else:
            w = cfg(text)
            dec = text
        want = False
        if dec is not None and all(c in charset for c in dec):
            ig = "(?:" + "|".join(f"(?:{tpat[t]})" for t in ign) + ")?" if ign else ""
            for sq in seqs:
                pat = "".join(f"{ig}(?:{tpat[t]})" for t in sq)
                if re.fullmatch(pat, dec) is not None:
                    want = True
                    break
        ctx.check(label, (w != 0) == want, detail=f"string {text!r}: grammar weight {w}, substitution semantics {want}", sig=f"language:{tag}:{text!r}")
        return
    # structural facts
    ctx.check("terminal and nonterminal names are disjoint", not (set(cfg.N) & set(cfg.V)), sig=f"names:{tag}")
    multi = sorted(str(a) for a in cfg.V if level == "char" and not (isinstance(a, str) and len(a) == 1))
    ctx.check("every terminal of the character grammar is a single character", not multi, detail=str(multi[:4]), sig=f"multichar-terminal:{tag}")
    if level == "byte":
        bad = sorted(str(a) for a in cfg.V if not (isinstance(a, int) and 0 <= a < 256))
        ctx.check("every terminal of the byte grammar is a byte", not bad, detail=str(bad[:4]), sig=f"non-byte-terminal:{tag}")
    if not ctx.symbolic:
        return
    emit = SE.charset_re if level == "char" else SE.bytes_re
    tre = {t: SE.regex_to_z3(p, charset, emit=emit) for t, p in tpat.items()}
    IG = None
    if ign:
        IG = z3.Option(z3.Union(*[tre[t] for t in ign]) if len(ign) > 1 else tre[ign[0]])
    rules = [(r.head, tuple(r.body)) for r in cfg.rules if r.w != 0]
    if level == "char":
        V = {a for a in cfg.V}
        term = lambda a: a
        universe = z3.Star(SE.charset_re(charset))
    else:
        V = {a for a in cfg.V}
        universe = z3.Star(z3.Range(chr(0), chr(255)))
    s = z3.String("s")
    for n in range(L + 1):
        chars = [z3.SubString(s, i, 1) for i in range(n)]
        if level == "char":
            term_eq = lambda i, cs: z3.InRe(chars[i], SE.charset_re([c for c in cs if isinstance(c, str) and len(c) == 1]))
        else:
            term_eq = lambda i, cs: z3.InRe(chars[i], SE.charset_re([chr(c) for c in cs if isinstance(c, int)]))
        acc = SE.encode_cfg_membership(rules, V, cfg.S, s, n, term_eq=term_eq)
        refs = []
        for sq in seqs:
            parts = []
            for t in sq:
                if IG is not None:
                    parts.append(IG)
                parts.append(tre[t])
            if not parts:
                refs.append(z3.Length(s) == 0)
            else:
                refs.append(z3.InRe(s, z3.Concat(*parts) if len(parts) > 1 else parts[0]))
        ref = z3.Or(*refs) if refs else z3.BoolVal(False)
        if P.get("canary") and n == 1:
            ref = z3.Not(ref)
        formula = z3.And(z3.Length(s) == n, z3.InRe(s, universe), acc != ref)
        ctx.unsat(label, formula, decode=lambda mdl: {"s": SE.z3_str(mdl, s)}, sig=f"language:{tag}", vars=[s])


def jobs(tier, seed):
    out = []
    quick = tier == "quick"
    for g in GRAMMARS:
        for level in ("char", "byte"):
            L = 7 if quick else (8 if level == "char" else 9)
            for rec in (["right"] if quick and level == "byte" else ["right", "left"]):
                out.append(dict(case="lark", params=dict(grammar=g, level=level, recursion=rec, L=L), budget=dict(formula_ms=300000), timeout=1500))
    for g in (["twobyte", "paren"] if quick else ["twobyte", "paren", "mb3", "case"]):
        for level in ("char", "byte"):
            out.append(dict(case="lark", params=dict(grammar=g, level=level, recursion="right", L=5 if quick else 7, other_level_first=True), budget=dict(formula_ms=300000), timeout=1500))
    out.append(dict(case="lark", params=dict(grammar="items", level="char", recursion="right", L=3, canary=True)))
    return [dict(j, hashseed=0) for j in out]


INFO = dict(
    level="other",
    level_text="Bounded symbolic verification with a symbolic STRING: for each Lark grammar of a catalogue (string and regex terminals, ?, *, +, "
               "alternation, case-insensitive literals incl. a multi-character case mapping, %ignore with one and two terminals, several terminals "
               "with multi-byte characters) the grammar produced by the real LarkStuff.char_cfg / byte_cfg (both recursion directions) is encoded for "
               "a z3 string (bounded inside encoding over the produced rules) and compared with the substitution semantics: the disjunction over all "
               "terminal sequences derivable in Lark's compiled rules of the concatenation of the terminals' regular expressions, each optionally "
               "preceded by one ignored match; z3 decides equality over ALL strings over the character set (all byte strings for the byte level, "
               "so truncated encodings and cross-terminal chains are covered) up to length L; models are replayed on the real parser and CPython's re.",
    level_note="The membership encoder is mine (nullable/unary closure computed concretely); a wrong encoder yields a model that fails replay = harness "
               "error, not a verdict. Trusted: Lark's compiled rule list as the meaning of the rule grammar, CPython re, z3 sequence theory.",
    design_ref="DESIGN.md section 3 C19",
    explanation="Grammar from the real Lark front-end encoded for a symbolic z3 string vs the substitution semantics; unsat = same language on all strings up to L.",
    bounds=dict(quick=dict(L=7, grammars=len(GRAMMARS)), thorough=dict(L="8 (char) / 9 (byte)", grammars=len(GRAMMARS))),
    outside=["strings longer than L", "Lark features outside the supported subset", "weights of the produced grammar (only support is claimed)"],
    assumptions=["every non-ignored terminal matches at least one character"],
)

INFO["technique"] = 'z3 sequence/regex theory: the grammar returned by the real LarkStuff.char_cfg/byte_cfg is encoded for a symbolic string (bounded inside encoding) and compared with the substitution semantics; all strings <= L; models replayed'
