"""C11 Automaton string weight is the sum over accepting paths."""
from .. import oracle as O
from ..build import automaton, automaton_weights, make_wfsa, oracle_machine
from ..core import case, split_job
from ..shapes import EPS, all_strings


@case("C11", "wfsa", domain="SW")
def wfsa(ctx):
    P = ctx.P
    sk = automaton(P["shape"])
    ws = automaton_weights(ctx, sk, always=P.get("always", ()))
    arcs, start, stop = oracle_machine(ctx, sk, ws)
    num = ctx.num
    alphabet = sorted({a for (_, a, _) in sk.arcs if a != EPS})
    strings = [tuple(x) for x in P["strings"]]
    m = make_wfsa(ctx, sk, ws)
    for x in strings:
        piv = []
        ref = O.wfsa_weight(arcs, start, stop, x, num, piv)
        ok, v = ctx.call(f"m({x})", m, x, sig="call:exception")
        if ok:
            ctx.eq(f"m({x})", v, ref, pivots=piv, sig=f"call:{P['shape']}:{''.join(x)}")
    if P.get("epsremove", True):
        m2 = make_wfsa(ctx, sk, ws)
        ok, e = ctx.call("epsremove", lambda: m2.epsremove, sig="epsremove:exception")
        if ok:
            has_eps = [(i, a, j) for i, a, j, w in e.arcs() if a == EPS and not ctx.D.is_zero_weight(w)]
            ctx.check("epsremove leaves no epsilon arcs", not has_eps, detail=str(has_eps[:3]), sig="epsremove:eps-arc-left")
            # evaluate the epsilon-free machine with the oracle (independent of WFSA.__call__)
            from ..build import machine_view

            a2, s2, t2 = machine_view(ctx, e)
            for x in strings:
                piv, piv2 = [], []
                ref = O.wfsa_weight(arcs, start, stop, x, num, piv)
                got = O.wfsa_weight(a2, s2, t2, x, num, piv2)
                ctx.eq_terms(f"epsremove language({x})", got, ref, hyps=[ctx.gt0(p) for p in piv + piv2], sig=f"epsremove:{P['shape']}:{''.join(x)}")
    if P.get("total", True):
        m3 = make_wfsa(ctx, sk, ws)
        piv = []
        ref = O.wfsa_total(arcs, start, stop, num, piv)
        ok, v = ctx.call("total_weight", m3.total_weight, sig="total_weight:exception")
        if ok:
            ctx.eq("total_weight", v, ref, pivots=piv, sig=f"total:{P['shape']}", exc_sig="total_weight:not-a-weight")


def jobs(tier, seed):
    out = []
    quick = tier == "quick"
    plan = [("A-EPS", [0, 1]), ("A-EPS2", [0]), ("A-S1", []), ("A-S2", [])] if quick else \
        [("A-EPS", [0, 1, 2, 3, 4]), ("A-EPS2", [0, 1]), ("A-S1", []), ("A-S2", []), ("A-DAG", [0, 1, 2]), ("A-DEAD", [0])]
    L = 3 if quick else 4
    for sh, bits in plan:
        sk = automaton(sh)
        alphabet = sorted({a for (_, a, _) in sk.arcs if a != EPS})
        strings = [list(x) for x in all_strings(alphabet, L)]
        if sh == "A-EPS":
            # two initial + two final weights always present keeps the path count at 2^8 per pattern
            pass
        alw = [8, 9, 10, 11] if (sh == "A-EPS" and quick) else []
        out += split_job(dict(case="wfsa", params=dict(shape=sh, strings=strings, always=alw)), bits)
    out.append(dict(case="wfsa", params=dict(shape="A-S1", strings=[[], ["a"]], canary=True)))
    seeds = [1 + seed % 1000] if quick else [0, 1 + seed % 1000]
    return [dict(j, hashseed=s) for j in out for s in (seeds if not j["params"].get("canary") else seeds[:1])]


INFO = dict(
    level="other",
    level_text="Bounded symbolic verification: WFSA.__call__, epsremove and total_weight run on automaton skeletons (epsilon arcs and cycles, several "
               "initial/final states, parallel arcs, dead and unreachable states) whose arc, initial and final weights are z3 reals in [0,inf) (each "
               "may be zero); z3 proves, per control path and string, equality with the path-sum oracle (epsilon closure by Cramer) for ALL weights; "
               "the epsilon-removed machine is re-evaluated by the oracle and must be epsilon-free.",
    level_note="Assumes convergence pivots > 0. Strings up to the bound; skeleton catalogue. Trusted: CPython, z3, SW proxy, path-sum oracle.",
    design_ref="DESIGN.md section 3 C11",
    explanation="Real automaton evaluation on symbolic weights; z3 proves equality with the accepting-path sum for all weights.",
    bounds=dict(quick=dict(strings="<= 3", skeletons=["A-EPS", "A-EPS2", "A-S1", "A-S2"]), thorough=dict(strings="<= 4", skeletons=6)),
    outside=["strings longer than the bound", "automata outside the catalogue's sub-shape lattices"],
    assumptions=["weights >= 0", "epsilon-cycle series converge (pivots > 0)"],
)
