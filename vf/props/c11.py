"""C11 Automaton string weight is the sum over accepting paths."""
from .. import oracle as O
from ..build import automaton, automaton_weights, make_wfsa, oracle_machine
from ..core import case, split_job
from ..shapes import EPS, all_strings


@case("C11", "wfsa", domain="SW")
def wfsa(ctx):
    P = ctx.P
    sk = automaton(P["shape"])
    ws = automaton_weights(ctx, sk, always=P.get("always", ()))
    arcs, start, stop = oracle_machine(ctx, sk, ws)
    num = ctx.num
    alphabet = sorted({a for (_, a, _) in sk.arcs if a != EPS})
    strings = [tuple(x) for x in P["strings"]]
    m = make_wfsa(ctx, sk, ws)
    for x in strings:
        piv = []
        ref = O.wfsa_weight(arcs, start, stop, x, num, piv)
        ok, v = ctx.call(f"m({x})", m, x, sig="call:exception")
        if ok:
            ctx.eq(f"m({x})", v, ref, pivots=piv, sig=f"call:{P['shape']}:{''.join(x)}")
    if P.get("epsremove", True):
        m2 = make_wfsa(ctx, sk, ws)
        ok, e = ctx.call("epsremove", lambda: m2.epsremove, sig="epsremove:exception")
        if ok:
            has_eps = [(i, a, j) for i, a, j, w in e.arcs() if a == EPS and not ctx.D.is_zero_weight(w)]
            ctx.check("epsremove leaves no epsilon arcs", not has_eps, detail=str(has_eps[:3]), sig="epsremove:eps-arc-left")
            # evaluate the epsilon-free machine with the oracle (independent of WFSA.__call__)
            from ..build import machine_view

            a2, s2, t2 = machine_view(ctx, e)
            for x in strings:
                piv, piv2 = [], []
                ref = O.wfsa_weight(arcs, start, stop, x, num, piv)
                got = O.wfsa_weight(a2, s2, t2, x, num, piv2)
                ctx.eq_terms(f"epsremove language({x})", got, ref, hyps=[ctx.gt0(p) for p in piv + piv2], sig=f"epsremove:{P['shape']}:{''.join(x)}")
    if P.get("total", True):
        m3 = make_wfsa(ctx, sk, ws)
        piv = []
        ref = O.wfsa_total(arcs, start, stop, num, piv)
        ok, v = ctx.call("total_weight", m3.total_weight, sig="total_weight:exception")
        if ok:
            ctx.eq("total_weight", v, ref, pivots=piv, sig=f"total:{P['shape']}", exc_sig="total_weight:not-a-weight")


# the same body over the NON-COMMUTATIVE matrix semiring (acyclic machines: star applied to zero only):
# the order  initial * arc * arc * ... * final  of every product becomes part of the proved identity
case("C11", "wfsa_nc", domain="SM")(wfsa)


@case("C11", "support", domain="Raw")
def support(ctx):
    """For ALL strings up to L at once (symbolic z3 string): the epsilon-free machine produced by the real
    epsremove accepts s  <=>  the original machine has an accepting path spelling s (reference: Boolean
    epsilon closure computed here).  Weights are positive constants, so non-zero weight <=> a path exists."""
    import z3

    from genlm.grammar.semiring import Float
    from genlm.grammar.wfsa.base import WFSA

    from .. import strenc as SE
    from .c17 import _nfa_tables

    P = ctx.P
    sk = automaton(P["shape"])
    L = P["L"]
    drop = set(P.get("drop", []))
    m = WFSA(Float)
    arcs = [(i, a, j) for k, (i, a, j) in enumerate(sk.arcs) if k not in drop]
    for i, a, j in arcs:
        m.add_arc(i, a, j, 0.25)
    for q in sk.init:
        m.add_I(q, 1.0)
    for q in sk.final:
        m.add_F(q, 0.5)
    alphabet = sorted({a for (_, a, _) in sk.arcs if a != EPS}) + ["z"]
    label = f"support of epsremove({P['shape']} minus arcs {sorted(drop)}) and of m(.) = accepting paths (all strings up to {L})"
    if not ctx.symbolic and "s" in ctx.D.values:
        s = ctx.D.values["s"]
        c2, I2, F2 = _nfa_tables(arcs, sk.init, sk.final)
        cur = set(I2)
        for ch in s:
            cur = {j for (i, j), cs in c2.items() if i in cur and ch in cs}
        want = bool(cur & F2)
        w = m(s)
        ctx.check(label, (w != 0) == want, detail=f"string {s!r}: weight {w}, accepting path exists {want}", sig=f"support:{P['shape']}:{s!r}")
        return
    ok, e = ctx.call("epsremove", lambda: m.epsremove, sig="epsremove:exception")
    if not ok or not ctx.symbolic:
        return
    real_arcs = [(i, a, j) for i, a, j, w in e.arcs() if w != 0]
    c1, I1, F1 = _nfa_tables(real_arcs, [q for q, w in e.start.items() if w != 0], [q for q, w in e.stop.items() if w != 0])
    c2, I2, F2 = _nfa_tables(arcs, sk.init, sk.final)
    s = z3.String("s")
    a1 = SE.unroll_nfa(s, L, None, I1, F1, c1)
    a2 = SE.unroll_nfa(s, L, None, I2, F2, c2)
    f = z3.And(z3.Length(s) <= L, z3.InRe(s, z3.Star(SE.charset_re(alphabet))), a1 != a2)
    if P.get("canary"):
        f = z3.And(z3.Length(s) <= L, z3.InRe(s, z3.Star(SE.charset_re(alphabet))), a1 != z3.And(a2, z3.Length(s) != 1))
    ctx.unsat(label, f, decode=lambda mdl: {"s": SE.z3_str(mdl, s)}, sig=f"support:{P['shape']}", vars=[s])


@case("C11", "same_object", domain="SW")
def same_object(ctx):
    """both kinds of query on ONE automaton object, in both orders (cached graphs E, G, epsremove, backward)"""
    P = ctx.P
    sk = automaton(P["shape"])
    ws = automaton_weights(ctx, sk, always=P.get("always", ()))
    arcs, start, stop = oracle_machine(ctx, sk, ws)
    num = ctx.num
    strings = [tuple(x) for x in P["strings"]]
    pt = []
    tot = O.wfsa_total(arcs, start, stop, num, pt)
    for order in ("total-first", "strings-first", "push-first"):
        m = make_wfsa(ctx, sk, ws)
        if order == "total-first":
            ok, v = ctx.call("total_weight", m.total_weight, sig="total_weight:exception")
            if ok:
                ctx.eq(f"[{order}] total_weight", v, tot, pivots=pt, sig=f"same-object:{order}:total")
        if order == "push-first":
            ok, _ = ctx.call("backward", lambda: m.backward, sig="backward:exception")
        for x in strings:
            piv = []
            ref = O.wfsa_weight(arcs, start, stop, x, num, piv)
            ok, v = ctx.call(f"m({x})", m, x, sig="call:exception")
            if ok:
                ctx.eq(f"[{order}] m({x})", v, ref, pivots=piv + (pt if order != "strings-first" else []), sig=f"same-object:{order}:{P['shape']}:{''.join(x)}")
        if order != "total-first":
            ok, v = ctx.call("total_weight", m.total_weight, sig="total_weight:exception")
            if ok:
                ctx.eq(f"[{order}] total_weight after string queries", v, tot, pivots=pt, sig=f"same-object:{order}:total")


def jobs(tier, seed):
    out = []
    quick = tier == "quick"
    for sh, bits in ([("A-S1", []), ("A-EPS2", [0])] if quick else [("A-S1", []), ("A-EPS2", [0, 1]), ("A-S2", []), ("A-EPS", [0, 1, 2, 3])]):
        sk = automaton(sh)
        alphabet = sorted({a for (_, a, _) in sk.arcs if a != EPS})
        out += split_job(dict(case="same_object", params=dict(shape=sh, strings=[list(x) for x in all_strings(alphabet, 2)],
                                                              always=list(range(len(sk.arcs), sk.K)))), bits)
    import random

    rnd = random.Random(seed)
    for sh in (["A-EPS", "A-EPS2"] if quick else ["A-EPS", "A-EPS2", "A-DAG", "A-S1", "A-S2", "A-DEAD"]):
        sk = automaton(sh)
        drops = [[]] + [sorted(rnd.sample(range(len(sk.arcs)), k)) for k in ([1, 2] if quick else [1, 1, 2, 2, 3])]
        for d in drops:
            out.append(dict(case="support", params=dict(shape=sh, L=8 if quick else 10, drop=d), timeout=900))
    out.append(dict(case="support", params=dict(shape="A-S1", L=4, drop=[], canary=True)))
    for sh, bits in ([("A-DAG", [0, 1])] if quick else [("A-DAG", [0, 1, 2]), ("A-DAG2", [0, 1]), ("A-D4", [0])]):
        sk = automaton(sh)
        alphabet = sorted({a for (_, a, _) in sk.arcs if a != EPS})
        out += split_job(dict(case="wfsa_nc", params=dict(shape=sh, strings=[list(x) for x in all_strings(alphabet, 3)], always=list(range(len(sk.arcs), sk.K)))), bits)
    plan = [("A-EPS", [0, 1]), ("A-EPS2", [0]), ("A-S1", []), ("A-S2", []), ("A-ISO", [])] if quick else \
        [("A-EPS", [0, 1, 2, 3, 4]), ("A-EPS2", [0, 1]), ("A-S1", []), ("A-S2", []), ("A-DAG", [0, 1, 2]), ("A-DEAD", [0])]
    L = 3 if quick else 4
    for sh, bits in plan:
        sk = automaton(sh)
        alphabet = sorted({a for (_, a, _) in sk.arcs if a != EPS})
        strings = [list(x) for x in all_strings(alphabet, L)]
        if sh == "A-EPS":
            # two initial + two final weights always present keeps the path count at 2^8 per pattern
            pass
        alw = [8, 9, 10, 11] if (sh == "A-EPS" and quick) else []
        out += split_job(dict(case="wfsa", params=dict(shape=sh, strings=strings, always=alw)), bits)
    out.append(dict(case="wfsa", params=dict(shape="A-S1", strings=[[], ["a"]], canary=True)))
    seeds = [1 + seed % 1000] if quick else [0, 1 + seed % 1000]
    return [dict(j, hashseed=s) for j in out for s in (seeds if not j["params"].get("canary") else seeds[:1])]


INFO = dict(
    level="other",
    level_text="Bounded symbolic verification: WFSA.__call__, epsremove and total_weight run on automaton skeletons (epsilon arcs and cycles, several "
               "initial/final states, parallel arcs, dead and unreachable states) whose arc, initial and final weights are z3 reals in [0,inf) (each "
               "may be zero); z3 proves, per control path and string, equality with the path-sum oracle (epsilon closure by Cramer) for ALL weights; "
               "the epsilon-removed machine is re-evaluated by the oracle and must be epsilon-free. Additional passes: (i) the same body over a "
               "NON-COMMUTATIVE symbolic semiring (2x2 matrices) on acyclic machines, so the order initial*arcs*final is part of the identity; (ii) both "
               "kinds of query on ONE object in both orders (cached graphs); (iii) SUPPORT for all strings up to L at once via a symbolic z3 string.",
    level_note="Assumes convergence pivots > 0. Strings up to the bound; skeleton catalogue. Trusted: CPython, z3, SW proxy, path-sum oracle.",
    design_ref="DESIGN.md section 3 C11",
    explanation="Real automaton evaluation on symbolic weights; z3 proves equality with the accepting-path sum for all weights.",
    bounds=dict(quick=dict(strings="<= 3", skeletons=["A-EPS", "A-EPS2", "A-S1", "A-S2"]), thorough=dict(strings="<= 4", skeletons=6)),
    outside=["strings longer than the bound", "automata outside the catalogue's sub-shape lattices"],
    assumptions=["weights >= 0", "epsilon-cycle series converge (pivots > 0)"],
)

INFO["technique"] = 'symbolic execution of WFSA evaluation / epsremove / total_weight with z3 real weights and with non-commutative 2x2 matrix weights; support for all strings <= L via a z3 symbolic string; bounded'
