"""C18 Regex automata accept exactly the regex language and are normalised."""
import re
import string
from fractions import Fraction

import z3

from .. import strenc as SE
from ..core import case

CHARSETS = {
    "core": None,  # string.printable
    "small": sorted("abcx .0"),
    "mixed": sorted("abABéßSs1_-"),
}

PATTERNS = [
    "[ab]*c?[^a]", "(ab|a)*b{2,3}.", r"\d+(\.\d+)?", "(?i:ab)c", r"[^\W\d]\w*", "a{2,}b", "[a-c]+", "a|b|ab", "(a|b)*abb", r"\s*x\s*",
    "[^ab][^a]?", ".{0,2}a", r"a\.b", r"\\", "(a?){2}b", "x*", "", "[a-cx-z0-3]*", "(?i:a[b-c])+", r"\w+ \w+", "-?(0|[1-9][0-9]*)", '"[^"]*"', "(?i:ß)", "(?i:s)t",
]


def _charset(name):
    return set(string.printable) if CHARSETS[name] is None else set(CHARSETS[name])


@case("C18", "regex", domain="Raw")
def regex(ctx):
    from genlm.grammar.lark_interface import interegular_to_wfsa

    P = ctx.P
    pat = P["pattern"]
    cs = _charset(P["charset"])
    L = P["L"]
    arg = "core" if CHARSETS[P["charset"]] is None else set(cs)
    import warnings

    with warnings.catch_warnings():
        warnings.simplefilter("ignore")
        ok, m = ctx.call(f"interegular_to_wfsa({pat!r}, {P['charset']})", interegular_to_wfsa, pat, charset=arg, sig="interegular_to_wfsa:exception")
    if not ok:
        return
    tag = f"{pat}|{P['charset']}"
    label = f"language of the automaton for {pat!r} over charset {P['charset']} = regex language (all strings up to {L})"
    if not ctx.symbolic and "s" in ctx.D.values:
        # replay: the solver's string against the real automaton and CPython's re
        s = ctx.D.values["s"]
        w = m(s)
        want = re.fullmatch(pat, s) is not None
        ctx.check(label, (w != 0) == want, detail=f"string {s!r}: automaton weight {w}, re.fullmatch {want}", sig=f"language:{tag}:{s!r}")
        return
    # ---- ground facts (constants; nothing for the solver to quantify)
    arcs = [(i, a, j, w) for i, a, j, w in m.arcs() if w != 0]
    multi = sorted({a for _, a, _, _ in arcs if not (isinstance(a, str) and len(a) == 1)})
    ctx.check(f"{pat!r}: every arc label is a single character", not multi, detail=f"multi-character labels {multi[:4]}", sig=f"multichar-arc:{tag}")
    mass = {}
    for i, a, j, w in arcs:
        mass[i] = mass.get(i, 0) + Fraction(w)
    for q, w in m.stop.items():
        mass[q] = mass.get(q, 0) + Fraction(w)
    bad = {q: float(v) for q, v in mass.items() if abs(v - 1) > Fraction(1, 10**9)}
    ctx.check(f"{pat!r}: locally normalised (arc weights + final weight = 1 at every state)", not bad, detail=f"mass per state {bad}", sig=f"normalisation:{tag}")
    inits = [q for q, w in m.start.items() if w != 0]
    ctx.check(f"{pat!r}: start weights sum to one", abs(sum(Fraction(m.start[q]) for q in inits) - 1) < Fraction(1, 10**9) if inits else True, sig=f"start-mass:{tag}")
    if not ctx.symbolic:
        return
    # ---- the language, for a symbolic string
    okr, ref = ctx.call("regex -> z3.Re", SE.regex_to_z3, pat, cs, sig="translator")
    if not okr:
        return
    s = z3.String("s")
    chars_of = {}
    for i, a, j, w in arcs:
        if isinstance(a, str) and len(a) == 1:
            chars_of.setdefault((i, j), set()).add(a)
    finals = [q for q, w in m.stop.items() if w != 0]
    acc = SE.unroll_nfa(s, L, None, set(inits), set(finals), chars_of)
    over = z3.InRe(s, z3.Star(SE.charset_re(cs)))
    formula = z3.And(z3.Length(s) <= L, over, acc != z3.InRe(s, ref))
    if P.get("canary"):
        formula = z3.And(z3.Length(s) <= L, over, acc != z3.InRe(s, z3.Concat(ref, SE.charset_re(cs))))
    ctx.unsat(label, formula, decode=lambda mdl: {"s": SE.z3_str(mdl, s)}, sig=f"language:{tag}", vars=[s])


@case("C18", "shared_charset", domain="Raw")
def shared_charset(ctx):
    """Several conversions with the SAME caller-supplied character-set object (as LarkStuff.char_cfg(charset=S)
    does for all terminals of a grammar): the set must not change and every later automaton must still be right."""
    from genlm.grammar.lark_interface import interegular_to_wfsa

    P = ctx.P
    pats = P["patterns"]
    L = P["L"]
    base = _charset(P["charset"])
    shared = set(base)
    import warnings

    machines = []
    with warnings.catch_warnings():
        warnings.simplefilter("ignore")
        for pat in pats:
            ok, m = ctx.call(f"interegular_to_wfsa({pat!r}, shared set)", interegular_to_wfsa, pat, charset=shared, sig="interegular_to_wfsa:exception")
            if not ok:
                return
            machines.append(m)
    ctx.check("the caller's character set is unchanged after the conversions", shared == base,
              detail=f"lost {sorted(base - shared)} gained {sorted(shared - base)}", sig=f"charset-mutated:{P['charset']}")
    pat, m = pats[-1], machines[-1]
    tag = f"{'>'.join(pats)}|{P['charset']}"
    label = f"language of the automaton for {pat!r} built after {pats[:-1]} with one shared charset object = regex language (all strings up to {L})"
    if not ctx.symbolic and "s" in ctx.D.values:
        s = ctx.D.values["s"]
        w = m(s)
        want = re.fullmatch(pat, s) is not None
        ctx.check(label, (w != 0) == want, detail=f"string {s!r}: automaton weight {w}, re.fullmatch {want}", sig=f"shared-charset:{tag}:{s!r}")
        return
    if not ctx.symbolic:
        return
    ref = SE.regex_to_z3(pat, base)
    s = z3.String("s")
    arcs = [(i, a, j, w) for i, a, j, w in m.arcs() if w != 0]
    chars_of = {}
    for i, a, j, w in arcs:
        if isinstance(a, str) and len(a) == 1:
            chars_of.setdefault((i, j), set()).add(a)
    inits = [q for q, w in m.start.items() if w != 0]
    finals = [q for q, w in m.stop.items() if w != 0]
    acc = SE.unroll_nfa(s, L, None, set(inits), set(finals), chars_of)
    formula = z3.And(z3.Length(s) <= L, z3.InRe(s, z3.Star(SE.charset_re(base))), acc != z3.InRe(s, ref))
    ctx.unsat(label, formula, decode=lambda mdl: {"s": SE.z3_str(mdl, s)}, sig=f"shared-charset:{tag}", vars=[s])


@case("C18", "translator_selftest", domain="Raw")
def translator_selftest(ctx):
    "validate the regex -> z3.Re translator: solver-generated members / non-members vs re.fullmatch"
    P = ctx.P
    pat = P["pattern"]
    cs = _charset(P["charset"])
    ref = SE.regex_to_z3(pat, cs)
    s = z3.String("s")
    over = z3.InRe(s, z3.Star(SE.charset_re(cs)))
    for member in (True, False):
        sol = z3.Solver()
        sol.set("timeout", 30000)
        sol.add(over, z3.Length(s) <= 5, z3.InRe(s, ref) if member else z3.Not(z3.InRe(s, ref)))
        got = []
        for _ in range(4):
            if sol.check() != z3.sat:
                break
            w = SE.z3_str(sol.model(), s)
            got.append(w)
            sol.add(s != z3.StringVal(w))
        bad = [w for w in got if (re.fullmatch(pat, w) is not None) != member]
        ctx.check(f"translator {pat!r}: solver {'members' if member else 'non-members'} agree with re.fullmatch", not bad, detail=f"{bad}", sig="translator-selftest")


def jobs(tier, seed):
    out = []
    quick = tier == "quick"
    L = 6 if quick else 8
    for pat in PATTERNS:
        for cname in (["core", "small"] if quick else ["core", "small", "mixed"]):
            out.append(dict(case="regex", params=dict(pattern=pat, charset=cname, L=L), budget=dict(formula_ms=120000 if quick else 600000), timeout=900))
    for pat in PATTERNS[:8] if quick else PATTERNS:
        out.append(dict(case="translator_selftest", params=dict(pattern=pat, charset="core")))
    for pats in [["[^a]", "[^b]c?"], ["a|b", ".x"], ["[ab]+", "[^c]*", "."]]:
        out.append(dict(case="shared_charset", params=dict(patterns=pats, charset="small", L=L)))
    out.append(dict(case="regex", params=dict(pattern="[ab]*c", charset="small", L=4, canary=True)))
    return [dict(j, hashseed=0) for j in out]


INFO = dict(
    level="other",
    level_text="Bounded symbolic verification with a symbolic STRING: for each pattern of a catalogue covering every supported operator (classes, negated "
               "classes, dot, alternation, * + ?, {m,n}, escapes, (?i:..)) and each character set (string.printable, small custom sets with characters "
               "outside the pattern's alphabet), the automaton returned by the real interegular_to_wfsa is unrolled for a z3 string s with |s| <= L "
               "and compared with a z3 regular expression obtained from CPython's own regex parse tree; z3 decides accept(s) != fullmatch(s) over ALL "
               "strings over the character set up to length L at once; models are replayed on the real automaton and re.fullmatch. Local "
               "normalisation is a ground fact about constants (exact rationals of the stored floats, tolerance 1e-9). A further case converts "
               "several patterns with ONE caller-supplied character-set object (as char_cfg does) and requires the set unchanged and the last language right.",
    level_note="Trusted: CPython's re as the meaning of a pattern (single-character predicates are evaluated by re on each charset character), z3's "
               "sequence/regex theory, the unrolling encoder. The translator is validated per run against re.fullmatch on solver-generated strings.",
    design_ref="DESIGN.md section 3 C18",
    explanation="Automaton from the real regex compiler unrolled for a symbolic z3 string vs. an independent z3 regex; unsat = equal on all strings up to L over the charset.",
    bounds=dict(quick=dict(L=6, patterns=len(PATTERNS), charsets=["core", "small"]), thorough=dict(L=8, patterns=len(PATTERNS), charsets=["core", "small", "mixed"])),
    outside=["strings longer than L", "patterns outside the catalogue", "regex features interegular does not support (look-around, back-references)"],
    assumptions=["CPython re.fullmatch is the reference semantics"],
)

INFO["technique"] = "z3 sequence/regex theory: the automaton returned by the real interegular_to_wfsa is unrolled for a symbolic string and compared with a z3.Re built from CPython's regex parse tree; all strings <= L over the charset; models replayed"
