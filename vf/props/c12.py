"""C12 Rational operations implement the algebra of weighted languages."""
from .. import oracle as O
from ..build import automaton, automaton_weights, machine_view, make_wfsa, oracle_machine
from ..core import case, split_job
from ..shapes import EPS, all_strings


def _splits(x):
    return [(x[:i], x[i:]) for i in range(len(x) + 1)]


class Lang:
    "weighted language given by its definition; memoised; collects pivots"

    def __init__(self, num):
        self.num = num
        self.piv = []


def _leaf(ctx, name, L):
    arcs, start, stop = L.ops[name]
    memo = {}

    def f(x):
        if x not in memo:
            memo[x] = O.wfsa_weight(arcs, start, stop, x, L.num, L.piv)
        return memo[x]

    return f


def _denote(ctx, e, L):
    num = L.num
    if isinstance(e, str):
        return _leaf(ctx, e, L)
    op = e[0]
    if op == "add":
        f, g = _denote(ctx, e[1], L), _denote(ctx, e[2], L)
        return lambda x: num.add(f(x), g(x))
    if op == "mul":
        f, g = _denote(ctx, e[1], L), _denote(ctx, e[2], L)
        return lambda x: num.sum(num.mul(f(u), g(v)) for u, v in _splits(x))
    if op in ("star", "plus"):
        f = _denote(ctx, e[1], L)
        memo = {}

        def star(x):
            if x in memo:
                return memo[x]
            e0 = f(())
            den = num.sub(num.one, e0)
            if not O.is_one(den):
                L.piv.append(den)
            tot = num.one if len(x) == 0 else num.zero
            for u, v in _splits(x):
                if len(u) == 0:
                    continue
                tot = num.add(tot, num.mul(f(u), star(v)))
            memo[x] = num.div(tot, den)
            return memo[x]

        if op == "star":
            return star
        return lambda x: num.sum(num.mul(f(u), star(v)) for u, v in _splits(x))
    if op == "reverse":
        f = _denote(ctx, e[1], L)
        return lambda x: f(tuple(reversed(x)))
    if op in ("rename", "renumber"):
        return _denote(ctx, e[1], L)
    raise KeyError(op)


def _build(ctx, e, ms):
    if isinstance(e, str):
        return ms[e]
    op = e[0]
    if op == "add":
        return _build(ctx, e[1], ms) + _build(ctx, e[2], ms)
    if op == "mul":
        return _build(ctx, e[1], ms) * _build(ctx, e[2], ms)
    if op == "star":
        return _build(ctx, e[1], ms).star()
    if op == "plus":
        return _build(ctx, e[1], ms).kleene_plus()
    if op == "reverse":
        return _build(ctx, e[1], ms).reverse
    if op == "rename":
        return _build(ctx, e[1], ms).rename(lambda q: ("r", q))
    if op == "renumber":
        return _build(ctx, e[1], ms).renumber
    raise KeyError(op)


def _show(e):
    return e if isinstance(e, str) else f"{e[0]}({', '.join(_show(x) for x in e[1:])})"


@case("C12", "rational", domain="SW")
def rational(ctx):
    P = ctx.P
    num = ctx.num
    L = Lang(num)
    L.ops = {}
    ms = {}
    off = 0
    for name, sh in P["operands"].items():
        sk = automaton(sh)
        ws = automaton_weights(ctx, sk, offset=off, always=[k - off for k in P.get("always", []) if off <= k < off + sk.K])
        off += sk.K
        ms[name] = make_wfsa(ctx, sk, ws)
        L.ops[name] = oracle_machine(ctx, sk, ws)
    strings = [tuple(x) for x in P["strings"]]
    for e in P["exprs"]:
        tag = _show(e)
        ok, m = ctx.call(f"build {tag}", _build, ctx, e, ms, sig=f"{tag}:construct")
        if not ok:
            continue
        den = _denote(ctx, e, L)
        view = machine_view(ctx, m)
        for x in strings:
            L.piv = []
            ref = den(x)
            piv = list(L.piv)
            piv2 = []
            got = O.wfsa_weight(*view, x, num, piv2)
            ctx.eq_terms(f"{tag}({x}) [result machine, path sum]", got, ref, hyps=[ctx.gt0(p) for p in piv + piv2], sig=f"{tag}:{''.join(x)}")
            if P.get("call", True):
                ok, v = ctx.call(f"{tag}({x})", m, x, sig=f"{tag}:call-exception")
                if ok:
                    ctx.eq(f"{tag}({x}) [real call]", v, ref, pivots=piv, sig=f"{tag}:call:{''.join(x)}")


@case("C12", "constructors", domain="SW")
def constructors(ctx):
    from genlm.grammar.wfsa.base import WFSA

    P = ctx.P
    D, num = ctx.D, ctx.num
    R = D.R
    w = D.var(0)
    wt = D.term(w)
    strings = [tuple(x) for x in P["strings"]]
    # lift
    ok, m = ctx.call("lift", WFSA.lift, "a", w, R=R, sig="lift:construct")
    if ok:
        for x in strings:
            ctx.eq(f"lift('a', w)({x})", m(x), wt if x == ("a",) else num.zero, sig="lift")
    # from_string, with and without weight
    for s in [(), ("a",), ("a", "b"), ("a", "a")]:
        ok, m = ctx.call("from_string", WFSA.from_string, s, R, w, sig="from_string:construct")
        if ok:
            for x in strings:
                ctx.eq(f"from_string({s}, w)({x})", m(x), wt if x == s else num.zero, sig="from_string")
        ok, m = ctx.call("from_string", WFSA.from_string, s, R, sig="from_string:construct")
        if ok:
            for x in strings:
                ctx.eq(f"from_string({s})({x})", m(x), num.one if x == s else num.zero, sig="from_string")
    for Xs in ([("a",), ("a", "b"), (), ("b", "a")], [("a", "b"), ("a",), ("b", "a", "b"), ("b",), ()], [("b", "b"), ("b", "b"), ("b",)]):
        ok, m = ctx.call("from_strings", WFSA.from_strings, Xs, R, sig="from_strings:construct")
        if ok:
            for x in strings:
                ctx.eq(f"from_strings({Xs})({x})", m(x), num.one if x in Xs else num.zero, sig="from_strings")
    # reverse / rename / renumber of machines whose only state is both initial and final and touches no arc
    for label, mk, lang in [("from_string((), w)", lambda: WFSA.from_string((), R, w), {(): wt}),
                            ("from_string((), w) + lift(a, w)", lambda: WFSA.from_string((), R, w) + WFSA.lift("a", w, R=R), {(): wt, ("a",): wt}),
                            ("from_strings([(), (a,b)])", lambda: WFSA.from_strings([(), ("a", "b")], R), {(): num.one, ("a", "b"): num.one})]:
        for opname, op, rev in [("reverse", lambda m_: m_.reverse, True), ("renumber", lambda m_: m_.renumber, False),
                                ("reverse.reverse", lambda m_: m_.reverse.reverse, False), ("rename", lambda m_: m_.rename(lambda q: ("r", q)), False)]:
            ok, m = ctx.call(f"{label}.{opname}", lambda: op(mk()), sig=f"{opname}:construct")
            if ok:
                for x in strings:
                    key = tuple(reversed(x)) if rev else x
                    ctx.eq(f"{label}.{opname}({x})", m(x), lang.get(key, num.zero), sig=f"{opname}:isolated-state")
    base = WFSA.lift("a", w, R=R)
    ok, z = ctx.call("zero", lambda: base.zero, sig="zero:construct")
    if ok:
        for x in strings:
            ctx.eq(f"zero({x})", z(x), num.zero, sig="zero")
    ok, o = ctx.call("one", lambda: base.one, sig="one:construct")
    if ok:
        for x in strings:
            ctx.eq(f"one({x})", o(x), num.one if x == () else num.zero, sig="one")


EXPRS_Q = [["add", "A", "B"], ["mul", "A", "B"], ["star", "A"], ["plus", "A"], ["reverse", "A"],
           ["star", ["add", "A", "B"]], ["mul", ["star", "A"], "B"], ["reverse", ["mul", "A", "B"]], ["renumber", ["rename", "A"]],
           ["plus", ["plus", "A"]], ["star", ["plus", "B"]]]
EXPRS_T = EXPRS_Q + [["add", ["mul", "A", "B"], "A"], ["plus", ["mul", "A", "B"]], ["mul", "A", ["star", "B"]], ["star", ["reverse", "A"]],
                     ["mul", ["mul", "A", "B"], "A"], ["star", ["star", "A"]]]


def jobs(tier, seed):
    out = []
    quick = tier == "quick"
    L = 3
    pairs = [("A-S1", "A-S2")] if quick else [("A-S1", "A-S2"), ("A-S2", "A-EPS2"), ("A-EPS2", "A-S1")]
    for a, b in pairs:
        A, B = automaton(a), automaton(b)
        alphabet = sorted({x for sk in (A, B) for (_, x, _) in sk.arcs if x != EPS})
        strings = [list(x) for x in all_strings(alphabet, L)]
        K = A.K + B.K
        exprs = EXPRS_Q if quick else EXPRS_T
        # quick: initial/final weights always present (arc weights free); thorough: everything free
        alw = []
        first = (a, b) == pairs[0]
        alw_all = list(range(len(A.arcs), A.K)) + list(range(A.K + len(B.arcs), K))
        if quick or not first:
            alw = alw_all
        for e in exprs:
            heavy = first and not quick and e in EXPRS_Q[:9]   # everything free only for the nine basic expressions of the first pair
            bits = [0] if quick else (list(range(min(4, K))) if heavy else [0, 1])
            if not quick and first and not heavy:
                out += split_job(dict(case="rational", params=dict(operands={"A": a, "B": b}, exprs=[e], strings=strings, always=alw_all, call=False)), bits)
                continue
            out += split_job(dict(case="rational", params=dict(operands={"A": a, "B": b}, exprs=[e], strings=strings, always=alw, call=(e in EXPRS_Q[:5]))), bits)
    out.append(dict(case="constructors", params=dict(strings=[list(x) for x in all_strings(["a", "b"], 3)])))
    out.append(dict(case="rational", params=dict(operands={"A": "A-S1", "B": "A-S2"}, exprs=[["mul", "A", "B"]], strings=[[], ["a"], ["a", "b"]], canary=True)))
    seeds = [1 + seed % 1000]
    return [dict(j, hashseed=s) for j in out for s in (seeds if not j["params"].get("canary") else seeds[:1])]


INFO = dict(
    level="other",
    level_text="Bounded symbolic verification: the real + * star kleene_plus reverse rename renumber (nested two levels) and lift/from_string/"
               "from_strings/zero/one run on operand skeletons with symbolic arc/initial/final weights (epsilon arcs, initial-also-final states, "
               "several initial/final states; every weight may be zero); the resulting machine is evaluated by the path-sum oracle (and by the real "
               "__call__) and z3 proves equality with the DEFINITION of the operation applied to the operands' languages, for all weights and all "
               "strings up to the bound.",
    level_note="Star uses the linear identity S(x) = ([x=eps] + sum_{u!=eps} A(u)S(v))/(1-A(eps)) with hypothesis A(eps) < 1. Trusted: CPython, z3, SW proxy, oracle.",
    design_ref="DESIGN.md section 3 C12",
    explanation="Real rational operations on symbolic-weight automata; z3 proves the result's language equals the operation's definition on the operands' languages.",
    bounds=dict(quick=dict(strings="<= 3", operand_pairs=1, expressions=len(EXPRS_Q)), thorough=dict(strings="<= 3", operand_pairs=3, expressions=len(EXPRS_T))),
    outside=["operands outside the catalogue", "nesting deeper than two", "strings longer than 3"],
    assumptions=["weights >= 0", "A(eps) < 1 and epsilon-cycle pivots > 0"],
)


# ---- support of nested rational expressions for ALL strings up to L (symbolic string) -------------------
def _atom(name, R):
    from genlm.grammar.wfsa.base import WFSA

    if name in ("a", "b", "c"):
        return WFSA.lift(name, R.one, R=R)
    if name == "ab":
        return WFSA.from_string("ab", R)
    if name == "one":
        return WFSA.lift("a", R.one, R=R).one
    if name == "zero":
        return WFSA.lift("a", R.one, R=R).zero
    if name == "a|ab":
        return WFSA.from_strings(["a", "ab"], R)
    raise KeyError(name)


def _atom_re(name):
    import z3

    if name in ("a", "b", "c"):
        return z3.Re(name)
    if name == "ab":
        return z3.Re("ab")
    if name == "one":
        return z3.Re("")
    if name == "zero":
        return z3.Empty(z3.ReSort(z3.StringSort()))
    if name == "a|ab":
        return z3.Union(z3.Re("a"), z3.Re("ab"))
    raise KeyError(name)


def _build_x(e, R):
    if isinstance(e, str):
        return _atom(e, R)
    op = e[0]
    if op == "add":
        return _build_x(e[1], R) + _build_x(e[2], R)
    if op == "mul":
        return _build_x(e[1], R) * _build_x(e[2], R)
    if op == "star":
        return _build_x(e[1], R).star()
    if op == "plus":
        return _build_x(e[1], R).kleene_plus()
    if op == "reverse":
        return _build_x(e[1], R).reverse
    if op == "renumber":
        return _build_x(e[1], R).renumber
    raise KeyError(op)


def _re_x(e, rev=False):
    import z3

    if isinstance(e, str):
        if rev and e == "ab":
            return z3.Re("ba")
        if rev and e == "a|ab":
            return z3.Union(z3.Re("a"), z3.Re("ba"))
        return _atom_re(e)
    op = e[0]
    if op == "add":
        return z3.Union(_re_x(e[1], rev), _re_x(e[2], rev))
    if op == "mul":
        return z3.Concat(_re_x(e[2], rev), _re_x(e[1], rev)) if rev else z3.Concat(_re_x(e[1], rev), _re_x(e[2], rev))
    if op == "star":
        return z3.Star(_re_x(e[1], rev))
    if op == "plus":
        return z3.Plus(_re_x(e[1], rev))
    if op == "reverse":
        return _re_x(e[1], not rev)
    if op == "renumber":
        return _re_x(e[1], rev)
    raise KeyError(op)


@case("C12", "support", domain="Raw")
def support(ctx):
    """Which strings get non-zero weight, for ALL strings up to L at once: the automaton built by the real
    operations (Boolean semiring: no cancellation) is unrolled for a z3 string and compared with the z3
    regular expression of the same expression tree."""
    import z3

    from genlm.grammar.semiring import Boolean

    from .. import strenc as SE
    from .c17 import _nfa_tables

    P = ctx.P
    e = P["expr"]
    L = P["L"]
    tag = _show(e)
    ok, m = ctx.call(f"build {tag}", _build_x, e, Boolean, sig=f"support:{tag}:construct")
    if not ok:
        return
    label = f"support of {tag} = regular expression (all strings over a,b,c up to {L})"
    if not ctx.symbolic and "s" in ctx.D.values:
        import re as _re

        s = ctx.D.values["s"]
        w = m(s)
        sol = z3.Solver()
        sol.add(z3.InRe(z3.StringVal(s), _re_x(e)))
        want = sol.check() == z3.sat
        ctx.check(label, (w == Boolean.one) == want, detail=f"string {s!r}: automaton weight {w}, expression language membership {want}", sig=f"support:{tag}:{s!r}")
        return
    if not ctx.symbolic:
        return
    arcs = [(i, a, j) for i, a, j, w in m.arcs() if w != Boolean.zero]
    inits = [q for q, w in m.start.items() if w != Boolean.zero]
    finals = [q for q, w in m.stop.items() if w != Boolean.zero]
    chars_of, I, F = _nfa_tables(arcs, inits, finals)
    # final states reachable by epsilon from an accepting position are handled by closing targets; close finals backwards too
    s = z3.String("s")
    acc = SE.unroll_nfa(s, L, None, I, F, chars_of)
    ref = _re_x(e)
    f = z3.And(z3.Length(s) <= L, z3.InRe(s, z3.Star(SE.charset_re("abc"))), acc != z3.InRe(s, ref))
    if P.get("canary"):
        f = z3.And(z3.Length(s) <= L, z3.InRe(s, z3.Star(SE.charset_re("abc"))), acc != z3.InRe(s, z3.Concat(ref, z3.Re("a"))))
    ctx.unsat(label, f, decode=lambda mdl: {"s": SE.z3_str(mdl, s)}, sig=f"support:{tag}", vars=[s])


SUPPORT_EXPRS = [
    ["star", ["add", "a", "ab"]], ["mul", ["star", "a"], ["star", "b"]], ["plus", ["mul", "a", ["star", "b"]]], ["reverse", ["mul", "ab", ["star", "c"]]],
    ["star", ["star", "a"]], ["add", ["mul", "one", "a"], ["mul", "zero", "b"]], ["mul", ["add", "one", "a"], ["add", "one", "b"]],
    ["star", ["mul", ["add", "a", "one"], "b"]], ["reverse", ["star", ["mul", "a", "a|ab"]]], ["renumber", ["plus", ["add", "ab", ["reverse", "ab"]]]],
    ["star", ["add", ["mul", "a", "b"], ["mul", "b", ["star", "c"]]]], ["mul", ["mul", ["star", "one"], "a"], ["plus", "one"]],
    ["star", "zero"], ["plus", "zero"], ["mul", "a|ab", "a|ab"], ["star", ["reverse", "a|ab"]],
]

_jobs0 = jobs


def jobs(tier, seed):  # noqa: F811
    out = _jobs0(tier, seed)
    L = 8 if tier == "quick" else 10
    for e in SUPPORT_EXPRS:
        out.append(dict(case="support", params=dict(expr=e, L=L), hashseed=0, timeout=900))
    out.append(dict(case="support", params=dict(expr=["star", "a"], L=4, canary=True), hashseed=0))
    return out


INFO["level_text"] += (" Additionally, for a catalogue of nested expressions over atoms (lift, from_string, from_strings, one, zero) the SUPPORT of the "
                       "automaton built by the real operations (Boolean semiring) is compared with the z3 regular expression of the same expression for ALL strings "
                       "up to L at once (symbolic string).")
INFO["bounds"]["quick"]["support"] = f"{len(SUPPORT_EXPRS)} expressions, all strings over a,b,c up to 8"
INFO["bounds"]["thorough"]["support"] = f"{len(SUPPORT_EXPRS)} expressions, all strings up to 10"

INFO["technique"] = "symbolic execution of the rational operations with z3 real weights against the operations' definitions; support of nested expressions vs z3.Re for all strings <= L (symbolic string); bounded"
