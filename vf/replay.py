"""python -m vf.replay <replay.json>: re-run a recorded counterexample on the real code (exit 1 if it reproduces)."""
import json
import os
import subprocess
import sys

ROOT = os.path.dirname(os.path.dirname(os.path.abspath(__file__)))


def main():
    rp = json.load(open(sys.argv[1]))
    if os.environ.get("_VF_REPLAY_CHILD") != "1":
        alt = os.environ.get("VERIF_REPO")
        env = dict(os.environ, PYTHONHASHSEED=str(rp.get("hashseed", 0)), _VF_REPLAY_CHILD="1", PYTHONPATH=(alt + ":" if alt else "") + ROOT, GENLM_GRAMMAR_VERIF="1")
        sys.exit(subprocess.call([sys.executable, "-m", "vf.replay", sys.argv[1]], env=env, cwd=ROOT))
    import warnings

    warnings.filterwarnings("ignore")
    from . import core

    core.load_props()
    r = core.replay_job(dict(prop=rp["property"], case=rp["case"], params=rp["params"], values=rp["values"],
                             choices=rp.get("choices", []), label=rp["label"]))["replay"]
    print(json.dumps(r, indent=1, default=str))
    print("REPRODUCED" if r["reproduced"] else "NOT REPRODUCED", rp["signature"])
    sys.exit(1 if r["reproduced"] else 0)


if __name__ == "__main__":
    main()
