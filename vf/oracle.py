"""Independent reference models, written from the mathematical definitions.

Generic over the number type: z3 real terms (proof obligations) or fractions.Fraction
(replay).  Shares no code with /repo.  Every routine that solves a cyclic linear system uses
Cramer's rule and reports the *pivots* (leading principal minors of I - A per cyclic strongly
connected component); "all pivots > 0" is exactly rho(A) < 1 for a non-negative matrix, i.e.
convergence of the series the closed form stands for.
"""
import itertools
from fractions import Fraction

import z3

from .engine import OutOfBounds

EPS = ""


# --------------------------------------------------------------------------------------
# number adapter
# --------------------------------------------------------------------------------------
def is_z3(x):
    return isinstance(x, z3.ExprRef)


_Z0 = z3.RealVal(0)
_Z1 = z3.RealVal(1)
_Z0_ID = _Z0.get_id()
_Z1_ID = _Z1.get_id()


def is_zero(x):
    "syntactic zero (z3 numerals are hash-consed: one AST per value while it is alive)"
    if x is _Z0:
        return True
    if isinstance(x, tuple):
        return all(is_zero(y) for y in x)
    if isinstance(x, z3.ExprRef):
        return x.get_id() == _Z0_ID
    return x == 0


def is_one(x):
    if x is _Z1:
        return True
    if isinstance(x, tuple):
        return False
    if isinstance(x, z3.ExprRef):
        return x.get_id() == _Z1_ID
    return x == 1


class Num:
    "zero/one of the number type in use, with pruning arithmetic"

    def __init__(self, symbolic):
        self.symbolic = symbolic
        self.zero = _Z0 if symbolic else Fraction(0)
        self.one = _Z1 if symbolic else Fraction(1)

    def add(self, a, b):
        if is_zero(a):
            return b
        if is_zero(b):
            return a
        return a + b

    def sub(self, a, b):
        if is_zero(b):
            return a
        if is_zero(a):
            return -b
        return a - b

    def mul(self, a, b):
        if is_zero(a) or is_zero(b):
            return self.zero
        if is_one(a):
            return b
        if is_one(b):
            return a
        return a * b

    def div(self, a, b):
        if is_zero(a):
            return self.zero
        if is_one(b):
            return a
        return a / b

    def prod(self, xs):
        r = self.one
        for x in xs:
            r = self.mul(r, x)
            if is_zero(r):
                return self.zero
        return r

    def sum(self, xs):
        r = self.zero
        for x in xs:
            r = self.add(r, x)
        return r


def num_for(x):
    return Num(is_z3(x))


# --------------------------------------------------------------------------------------
# linear algebra by Cramer's rule
# --------------------------------------------------------------------------------------
def det(M, num):
    n = len(M)
    if n == 0:
        return num.one
    memo = {}

    def go(r, cols):
        if r == n:
            return num.one
        key = (r, cols)
        if key in memo:
            return memo[key]
        tot = num.zero
        sign = 1
        for c in cols:
            e = M[r][c]
            if not is_zero(e):
                sub = go(r + 1, tuple(x for x in cols if x != c))
                t = num.mul(e, sub)
                tot = num.add(tot, t) if sign == 1 else num.sub(tot, t)
            sign = -sign
        memo[key] = tot
        return tot

    return go(0, tuple(range(n)))


def leading_minors(A, num):
    return [det([row[:k] for row in A[:k]], num) for k in range(1, len(A) + 1)]


def sccs(nodes, succ):
    "Tarjan; returns components in reverse topological order (callees first)"
    index = {}
    low = {}
    st = []
    on = set()
    out = []
    ctr = [0]

    def dfs(v):
        index[v] = low[v] = ctr[0]
        ctr[0] += 1
        st.append(v)
        on.add(v)
        for w in succ(v):
            if w not in index:
                dfs(w)
                low[v] = min(low[v], low[w])
            elif w in on:
                low[v] = min(low[v], index[w])
        if low[v] == index[v]:
            comp = []
            while True:
                w = st.pop()
                on.discard(w)
                comp.append(w)
                if w == v:
                    break
            out.append(comp)

    for v in nodes:
        if v not in index:
            dfs(v)
    return out


def solve_lfp(U, c, num, pivots):
    """Least solution of y = U y + c (U, c non-negative): per SCC of U's support, acyclic parts
    by substitution, cyclic parts by Cramer.  Appends the pivots of each cyclic SCC."""
    n = len(c)
    succ = lambda i: [j for j in range(n) if not is_zero(U[i][j])]
    y = [None] * n
    for comp in sccs(range(n), succ):
        comp = sorted(comp)
        cyc = len(comp) > 1 or not is_zero(U[comp[0]][comp[0]])
        rhs = []
        for i in comp:
            r = c[i]
            for j in range(n):
                if j not in comp and not is_zero(U[i][j]):
                    r = num.add(r, num.mul(U[i][j], y[j]))
            rhs.append(r)
        if not cyc:
            y[comp[0]] = rhs[0]
            continue
        if all(is_zero(r) for r in rhs):
            # least solution of a homogeneous system is zero (the closed form would give 0/det)
            pivots.extend(leading_minors(
                [[num.sub(num.one if a == b else num.zero, U[a][b]) for b in comp] for a in comp], num))
            for i in comp:
                y[i] = num.zero
            continue
        A = [[num.sub(num.one if a == b else num.zero, U[a][b]) for b in comp] for a in comp]
        pivots.extend(leading_minors(A, num))
        D = det(A, num)
        for k, i in enumerate(comp):
            Ak = [[(rhs[r] if cc == k else A[r][cc]) for cc in range(len(comp))] for r in range(len(comp))]
            y[i] = num.div(det(Ak, num), D)
    return y


def closure(A, nodes, num, pivots):
    "(I - A)^{-1} = sum of all powers of A, as a dict (i, j) -> value; A is a dict (i,j)->w"
    nodes = list(nodes)
    n = len(nodes)
    K = {}
    # column j of the closure solves  k_j = A k_j + e_j   (k_j[i] = K[i, j])
    U = [[A.get((a, b), num.zero) for b in nodes] for a in nodes]
    for jx, j in enumerate(nodes):
        c = [num.one if i == jx else num.zero for i in range(n)]
        piv = []
        y = solve_lfp(U, c, num, piv)
        if jx == 0:
            pivots.extend(piv)
        for ix, i in enumerate(nodes):
            K[i, j] = y[ix]
    return K


# --------------------------------------------------------------------------------------
# context-free grammars: rules = [(w, head, body)], V = set of terminals
# --------------------------------------------------------------------------------------
def _live_rules(rules):
    return [(w, h, tuple(b)) for (w, h, b) in rules if not is_zero(w)]


def nonterminals(rules, V, S=None):
    N = []
    for _, h, b in rules:
        for s in (h,) + tuple(b):
            if s not in V and s not in N:
                N.append(s)
    if S is not None and S not in N:
        N.append(S)
    return N


def generating_set(rules, V):
    gen = set(V)
    ch = True
    while ch:
        ch = False
        for _, h, b in rules:
            if h not in gen and all(y in gen for y in b):
                gen.add(h)
                ch = True
    return gen


def treesums(rules, V, num, pivots, algebraic=None):
    """Total weight of all derivation trees per nonterminal (least solution), in closed form
    when every SCC of the dependency graph is linear; OutOfBounds otherwise -- unless `algebraic` is a
    list: then a non-linear SCC gets one unknown Z[X] per nonterminal, constrained by its own equation
    Z[X] = F_X(Z) and Z[X] > 0 (constraints appended to `algebraic`): every identity that follows from the
    fixed-point equations alone can still be decided.  (Concrete numbers: least solution by iteration, in floats.)"""
    rules = [r for r in _live_rules(rules) if r[1] not in V]  # a symbol of V is a terminal: its "rules" are never used
    gen = generating_set(rules, V)
    rules = [r for r in rules if r[1] in gen and all(y in gen for y in r[2])]
    N = nonterminals(rules, V)
    dep = {X: set() for X in N}
    for _, h, b in rules:
        for y in b:
            if y not in V:
                dep[h].add(y)
    Z = {}
    for comp in sccs(N, lambda X: dep[X]):
        cs = set(comp)
        idx = {X: i for i, X in enumerate(comp)}
        n = len(comp)
        U = [[num.zero] * n for _ in range(n)]
        c = [num.zero] * n
        for w, h, b in rules:
            if h not in cs:
                continue
            inside = [y for y in b if y in cs]
            if len(inside) > 1:
                if algebraic is None:
                    raise OutOfBounds("non-linear recursive component in the treesum system")
                _algebraic_component(rules, V, comp, Z, num, algebraic)
                break
            coef = w
            for y in b:
                if y in V or y in cs:
                    continue
                coef = num.mul(coef, Z[y])
            if inside:
                U[idx[h]][idx[inside[0]]] = num.add(U[idx[h]][idx[inside[0]]], coef)
            else:
                c[idx[h]] = num.add(c[idx[h]], coef)
        else:
            y = solve_lfp(U, c, num, pivots)
            for X in comp:
                Z[X] = y[idx[X]]
    return Z


def _algebraic_component(rules, V, comp, Z, num, algebraic):
    cs = set(comp)
    if num.symbolic:
        for X in comp:
            Z[X] = z3.Real(f"Z[{X!r}]")
        for X in comp:
            rhs = num.zero
            for w, h, b in rules:
                if h == X:
                    rhs = num.add(rhs, num.prod([w] + [Z[y] for y in b if y not in V]))
            algebraic.append(Z[X] == rhs)
            algebraic.append(Z[X] > 0)
        return
    # concrete: Kleene iteration from zero (floats); the caller compares with a tolerance
    val = {X: 0.0 for X in comp}
    for _ in range(200000):
        new = {}
        for X in comp:
            tot = 0.0
            for w, h, b in rules:
                if h == X:
                    t = float(w)
                    for y in b:
                        if y not in V:
                            t *= val[y] if y in cs else float(Z[y])
                    tot += t
            new[X] = tot
        done = max(abs(new[X] - val[X]) for X in comp) < 1e-15
        val = new
        if done:
            break
    else:
        raise OverflowError("divergent non-linear system")
    if any(v > 1e12 for v in val.values()):
        raise OverflowError("divergent non-linear system")
    for X in comp:
        Z[X] = Fraction(val[X])
    algebraic.append(True)


def null_weights(rules, V, num, pivots):
    return treesums([r for r in _live_rules(rules) if not any(y in V for y in r[2])], set(), num, pivots)


def inside_table(rules, V, xs, num, pivots):
    """I[X, i, k] = total weight of derivations of xs[i:k] from X (all nonterminals, all spans)."""
    rules = [r for r in _live_rules(rules) if r[1] not in V]
    N = nonterminals(rules, V)
    idx = {X: i for i, X in enumerate(N)}
    n = len(xs)
    null = null_weights(rules, V, num, pivots)
    I = {}
    for X in N:
        for i in range(n + 1):
            I[X, i, i] = null.get(X, num.zero)

    def val(y, i, k):
        if y in V:
            return num.one if (k == i + 1 and xs[i] == y) else num.zero
        return I.get((y, i, k), num.zero)

    for d in range(1, n + 1):
        for i in range(n - d + 1):
            k = i + d
            c = [num.zero] * len(N)
            U = [[num.zero] * len(N) for _ in N]
            for w, h, b in rules:
                m = len(b)
                if m == 0:
                    continue
                for cuts in itertools.combinations_with_replacement(range(i, k + 1), m - 1):
                    js = (i,) + cuts + (k,)
                    full = [t for t in range(m) if js[t] == i and js[t + 1] == k]
                    if len(full) == 1 and b[full[0]] not in V:
                        t0 = full[0]
                        coef = w
                        for t in range(m):
                            if t != t0:
                                coef = num.mul(coef, val(b[t], js[t], js[t + 1]))
                                if is_zero(coef):
                                    break
                        if not is_zero(coef):
                            U[idx[h]][idx[b[t0]]] = num.add(U[idx[h]][idx[b[t0]]], coef)
                    elif len(full) >= 2 and any(b[t] not in V for t in full):
                        # d >= 1, so two parts cannot both span (i,k) unless ... impossible
                        continue
                    else:
                        term = w
                        for t in range(m):
                            term = num.mul(term, val(b[t], js[t], js[t + 1]))
                            if is_zero(term):
                                break
                        if not is_zero(term):
                            c[idx[h]] = num.add(c[idx[h]], term)
            y = solve_lfp(U, c, num, pivots)
            for X in N:
                I[X, i, k] = y[idx[X]]
    return I, N


def string_weight(rules, V, S, xs, num, pivots):
    "Sum over all derivation trees of xs from S of the product of rule weights."
    xs = tuple(xs)
    rules = _live_rules(rules)
    I, N = inside_table(rules, V, xs, num, pivots)
    return I.get((S, 0, len(xs)), num.zero)


def prefix_weight(rules, V, S, p, num, pivots):
    """Total weight of all derivations from S whose yield begins with p (each (derivation) once)."""
    p = tuple(p)
    rules = [r for r in _live_rules(rules) if r[1] not in V]
    n = len(p)
    Z = treesums(rules, V, num, pivots)
    if n == 0:
        return Z.get(S, num.zero)
    I, N = inside_table(rules, V, p, num, pivots)
    idx = {X: i for i, X in enumerate(N)}

    def zval(y):
        return num.one if y in V else Z.get(y, num.zero)

    def ival(y, i, k):
        if y in V:
            return num.one if (k == i + 1 and p[i] == y) else num.zero
        return I.get((y, i, k), num.zero)

    P = {}

    def pval(y, j):
        if y in V:
            return num.one if (j == n - 1 and p[j] == y) else num.zero
        return P.get((y, j), num.zero)

    for i in range(n - 1, -1, -1):
        c = [num.zero] * len(N)
        U = [[num.zero] * len(N) for _ in N]
        for w, h, b in rules:
            m = len(b)
            for t in range(m):
                tail = num.prod([zval(y) for y in b[t + 1:]])
                if is_zero(tail):
                    continue
                # cuts i = j0 <= j1 <= ... <= j_{t} <= n-1 for the t symbols before position t
                for cuts in itertools.combinations_with_replacement(range(i, n), t):
                    js = (i,) + cuts
                    pre = w
                    for s in range(t):
                        pre = num.mul(pre, ival(b[s], js[s], js[s + 1]))
                        if is_zero(pre):
                            break
                    if is_zero(pre):
                        continue
                    j = js[t]
                    coef = num.mul(pre, tail)
                    if j == i and b[t] not in V:
                        U[idx[h]][idx[b[t]]] = num.add(U[idx[h]][idx[b[t]]], coef)
                    else:
                        c[idx[h]] = num.add(c[idx[h]], num.mul(coef, pval(b[t], j)))
        y = solve_lfp(U, c, num, pivots)
        for X in N:
            P[X, i] = y[idx[X]]
    return P.get((S, 0), num.zero)


def derivation_language(rules, V, S, maxlen, num, pivots):
    "dict string -> weight for all strings of length <= maxlen (over V) with their exact weights"
    out = {}
    Vs = sorted(V, key=repr)
    for n in range(maxlen + 1):
        for xs in itertools.product(Vs, repeat=n):
            out[xs] = string_weight(rules, V, S, xs, num, pivots)
    return out


# Boolean references ------------------------------------------------------------------
def bool_rules(rules):
    return [(h, tuple(b)) for (w, h, b) in _live_rules(rules)]


def reachable_generating(rules, V, S):
    "symbols that occur in some complete derivation from S (generating and reachable through generating rules)"
    br = bool_rules(rules)
    gen = set(V)
    ch = True
    while ch:
        ch = False
        for h, b in br:
            if h not in gen and all(y in gen for y in b):
                gen.add(h)
                ch = True
    good = [(h, b) for h, b in br if h in gen and all(y in gen for y in b)]
    reach = set()
    if S in gen:
        reach.add(S)
        ch = True
        while ch:
            ch = False
            for h, b in good:
                if h in reach:
                    for y in b:
                        if y not in reach:
                            reach.add(y)
                            ch = True
    return gen, reach, [(h, b) for h, b in good if h in reach]


def bool_member(rules, V, S, xs):
    "CFG membership by a plain Boolean fixed point over spans (independent of the weighted code)"
    xs = tuple(xs)
    n = len(xs)
    br = bool_rules(rules)
    T = set()
    ch = True

    def ok(y, i, k):
        if y in V:
            return k == i + 1 and xs[i] == y
        return (y, i, k) in T

    def body_ok(b, i, k):
        if not b:
            return i == k
        if len(b) == 1:
            return ok(b[0], i, k)
        return any(ok(b[0], i, j) and body_ok(b[1:], j, k) for j in range(i, k + 1))

    while ch:
        ch = False
        for h, b in br:
            for i in range(n + 1):
                for k in range(i, n + 1):
                    if (h, i, k) not in T and body_ok(b, i, k):
                        T.add((h, i, k))
                        ch = True
    return (S, 0, n) in T


def bool_viable_prefix(rules, V, S, p):
    "is p a prefix of some string of the language?"
    p = tuple(p)
    n = len(p)
    gen, reach, good = reachable_generating(rules, V, S)
    if S not in gen:
        return False
    if n == 0:
        return True
    # complete items over p
    T = set()

    def ok(y, i, k):
        if y in V:
            return k == i + 1 and p[i] == y
        return (y, i, k) in T

    def body_ok(b, i, k):
        if not b:
            return i == k
        if len(b) == 1:
            return ok(b[0], i, k)
        return any(ok(b[0], i, j) and body_ok(b[1:], j, k) for j in range(i, k + 1))

    ch = True
    while ch:
        ch = False
        for h, b in good:
            for i in range(n + 1):
                for k in range(i, n + 1):
                    if (h, i, k) not in T and body_ok(b, i, k):
                        T.add((h, i, k))
                        ch = True
    # open items: (X, i) = X derives some string beginning with p[i:], i < n
    O = set()

    def open_ok(y, j):
        if y in V:
            return j == n - 1 and p[j] == y
        return (y, j) in O

    def pre_ok(b, i, j):
        return body_ok(b, i, j)

    ch = True
    while ch:
        ch = False
        for h, b in good:
            for i in range(n):
                if (h, i) in O:
                    continue
                found = False
                for t in range(len(b)):
                    for j in range(i, n):
                        if pre_ok(b[:t], i, j) and open_ok(b[t], j):
                            found = True
                            break
                    if found:
                        break
                if found:
                    O.add((h, i))
                    ch = True
    return (S, 0) in O


# --------------------------------------------------------------------------------------
# automata and transducers: arcs = [(i, a, j, w)], start/stop = dict state -> w
# --------------------------------------------------------------------------------------
def _states(arcs, start, stop):
    Q = []
    for q in list(start) + list(stop) + [s for (i, _, j, _) in arcs for s in (i, j)]:
        if q not in Q:
            Q.append(q)
    return Q


_CLOSURE_CACHE = {}


def _eps_closure(arcs, Q, is_eps, num, pivots):
    key = (id(arcs), num.symbolic)
    hit = _CLOSURE_CACHE.get(key)
    if hit is not None and hit[0] is arcs:
        pivots.extend(hit[2])
        return hit[1]
    piv = []
    K = _eps_closure_uncached(arcs, Q, is_eps, num, piv)
    if len(_CLOSURE_CACHE) > 64:
        _CLOSURE_CACHE.clear()
    _CLOSURE_CACHE[key] = (arcs, K, piv)
    pivots.extend(piv)
    return K


def _eps_closure_uncached(arcs, Q, is_eps, num, pivots):
    A = {}
    for i, a, j, w in arcs:
        if is_eps(a) and not is_zero(w):
            A[i, j] = num.add(A.get((i, j), num.zero), w)
    return closure(A, Q, num, pivots)


def _vec_times(v, K, Q, num):
    out = {}
    for i, vi in v.items():
        if is_zero(vi):
            continue
        for j in Q:
            kij = K.get((i, j), num.zero)
            if not is_zero(kij):
                out[j] = num.add(out.get(j, num.zero), num.mul(vi, kij))
    return out


def wfsa_weight(arcs, start, stop, xs, num, pivots, eps=EPS):
    "sum over accepting paths spelling xs of start * arc weights * stop (epsilon cycles by closed form)"
    Q = _states(arcs, start, stop)
    K = _eps_closure(arcs, Q, lambda a: a == eps, num, pivots)
    v = _vec_times({q: w for q, w in start.items()}, K, Q, num)
    for x in xs:
        nxt = {}
        for i, a, j, w in arcs:
            if a == x and a != eps and i in v and not is_zero(w):
                nxt[j] = num.add(nxt.get(j, num.zero), num.mul(v[i], w))
        v = _vec_times(nxt, K, Q, num)
    tot = num.zero
    for q, w in stop.items():
        if q in v:
            tot = num.add(tot, num.mul(v[q], w))
    return tot


def wfsa_total(arcs, start, stop, num, pivots):
    "sum over all accepting paths"
    Q = _states(arcs, start, stop)
    A = {}
    for i, a, j, w in arcs:
        if not is_zero(w):
            A[i, j] = num.add(A.get((i, j), num.zero), w)
    K = closure(A, Q, num, pivots)
    tot = num.zero
    for i, wi in start.items():
        for j, wj in stop.items():
            tot = num.add(tot, num.prod([wi, K.get((i, j), num.zero), wj]))
    return tot


def fst_weight(arcs, start, stop, xs, ys, num, pivots, eps=EPS):
    "T(xs, ys): sum over accepting paths with input xs and output ys; labels are pairs (a, b)"
    xs, ys = tuple(xs), tuple(ys)
    Q = _states(arcs, start, stop)
    K = _eps_closure(arcs, Q, lambda ab: ab == (eps, eps), num, pivots)
    cell = {}
    for px in range(len(xs) + 1):
        for py in range(len(ys) + 1):
            inc = {}
            if px == 0 and py == 0:
                inc = {q: w for q, w in start.items()}
            for i, (a, b), j, w in arcs:
                if is_zero(w) or (a == eps and b == eps):
                    continue
                if a != eps and b == eps:
                    src = (px - 1, py) if px > 0 and xs[px - 1] == a else None
                elif a == eps and b != eps:
                    src = (px, py - 1) if py > 0 and ys[py - 1] == b else None
                else:
                    src = (px - 1, py - 1) if px > 0 and py > 0 and xs[px - 1] == a and ys[py - 1] == b else None
                if src is None:
                    continue
                v = cell[src].get(i)
                if v is None or is_zero(v):
                    continue
                inc[j] = num.add(inc.get(j, num.zero), num.mul(v, w))
            cell[px, py] = _vec_times(inc, K, Q, num)
    v = cell[len(xs), len(ys)]
    tot = num.zero
    for q, w in stop.items():
        if q in v:
            tot = num.add(tot, num.mul(v[q], w))
    return tot


def max_len_other_tape(arcs, start, stop, xs, tape, eps=EPS):
    """Longest string on the *other* tape over paths reading xs on `tape` (0=input given, 1=output
    given) that can still reach a final state; None if unbounded."""
    Q = _states(arcs, start, stop)
    live = [a for a in arcs if not is_zero(a[3])]
    # co-accessible states
    co = {q for q, w in stop.items() if not is_zero(w)}
    ch = True
    while ch:
        ch = False
        for i, _, j, _ in live:
            if j in co and i not in co:
                co.add(i)
                ch = True
    n = len(xs)
    best = {}
    for q, w in start.items():
        if not is_zero(w) and q in co:
            best[q, 0] = 0
    limit = (len(Q) + 1) * (n + 1) + 2
    for it in range(limit + 1):
        changed = False
        for i, ab, j, w in live:
            if j not in co:
                continue
            given, other = ab[tape], ab[1 - tape]
            for pos in range(n + 1):
                if (i, pos) not in best:
                    continue
                if given == eps:
                    npos = pos
                elif pos < n and xs[pos] == given:
                    npos = pos + 1
                else:
                    continue
                val = best[i, pos] + (0 if other == eps else 1)
                if best.get((j, npos), -1) < val:
                    best[j, npos] = val
                    changed = True
        if not changed:
            break
    else:
        return None
    if changed:
        return None
    vals = [v for (q, pos), v in best.items() if pos == n and not is_zero(stop.get(q, 0))]
    return max(vals) if vals else -1


def compose_weight(f, g, xs, zs, mid_alphabet, num, pivots, eps=EPS):
    """(f o g)(xs, zs) = sum over intermediate strings y of f(xs, y) * g(y, zs) -- the definition.
    Requires the set of relevant y to be finite (bounded on at least one side); OutOfBounds otherwise."""
    b1 = max_len_other_tape(*f, xs, 0, eps)
    b2 = max_len_other_tape(*g, zs, 1, eps)
    if b1 is None and b2 is None:
        raise OutOfBounds("infinitely many intermediate strings")
    bound = min(b for b in (b1, b2) if b is not None)
    if bound < 0:
        return num.zero
    mid = sorted(a for a in mid_alphabet if a != eps)
    tot = num.zero
    for n in range(bound + 1):
        for y in itertools.product(mid, repeat=n):
            a = fst_weight(*f, xs, y, num, pivots, eps)
            if is_zero(a):
                continue
            b = fst_weight(*g, y, zs, num, pivots, eps)
            tot = num.add(tot, num.mul(a, b))
    return tot
