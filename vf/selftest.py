"""Oracle self-test (DESIGN 2.5): the reference models against brute force that shares no method with them.

  * grammars: top-down enumeration of ALL derivation trees of finite-derivation sub-shapes (exact weighted language)
    vs oracle.string_weight / treesums / prefix_weight, with concrete Fraction weights;
  * automata / transducers: enumeration of all accepting paths up to a length bound on acyclic sub-shapes
    vs oracle.wfsa_weight / fst_weight / wfsa_total;
  * closures: truncated power series sum_k A^k on convergent concrete matrices vs oracle.closure (tolerance).

python -m vf.selftest   exits 0 when everything agrees."""
import itertools
import random
import sys
from fractions import Fraction

from . import oracle as O
from .shapes import AUTOMATA, EPS, GRAMMARS, TRANSDUCERS, all_strings


def _finite(rules, V):
    live = [(h, b) for (w, h, b) in rules if w != 0]
    gen = O.generating_set([(1, h, b) for h, b in live], V)
    good = [(h, b) for h, b in live if h in gen and all(y in gen for y in b)]
    dep = {}
    for h, b in good:
        dep.setdefault(h, set()).update(y for y in b if y not in V)
    for comp in O.sccs(list(dep), lambda x: dep.get(x, ())):
        if len(comp) > 1 or comp[0] in dep.get(comp[0], ()):
            return False
    return True


def _language(rules, V, S):
    "weighted language by expanding every derivation tree top-down (finite-derivation grammars only)"
    gen = O.generating_set([(1, h, b) for (w, h, b) in rules if w != 0], V)
    by_head = {}
    for w, h, b in rules:
        if w != 0 and h in gen and all(y in gen for y in b):  # rules with a non-generating symbol are in no derivation
            by_head.setdefault(h, []).append((w, b))

    def expand(sym):
        if sym in V:
            return {(sym,): Fraction(1)}
        out = {}
        for w, b in by_head.get(sym, []):
            parts = [{(): Fraction(1)}]
            acc = {(): w}
            for y in b:
                sub = expand(y)
                nxt = {}
                for x1, w1 in acc.items():
                    for x2, w2 in sub.items():
                        nxt[x1 + x2] = nxt.get(x1 + x2, 0) + w1 * w2
                acc = nxt
            for x, wx in acc.items():
                out[x] = out.get(x, 0) + wx
        return out

    return expand(S)


def grammars(rnd, n=60):
    num = O.Num(False)
    bad = []
    names = [k for k in GRAMMARS if k not in ("G-MB", "G-INT")]
    done = 0
    tries = 0
    while done < n and tries < 4000:
        tries += 1
        sk = GRAMMARS[rnd.choice(names)]
        ws = [Fraction(rnd.randint(1, 5), rnd.randint(1, 7)) if rnd.random() < 0.6 else Fraction(0) for _ in range(sk.K)]
        rules = [(w, h, b) for w, (h, b) in zip(ws, sk.rules)]
        if not _finite(rules, sk.V):
            continue
        done += 1
        lang = _language(rules, sk.V, sk.S)
        for x in all_strings(sk.V, 4):
            got = O.string_weight(rules, sk.V, sk.S, x, num, [])
            if got != lang.get(x, 0):
                bad.append(("string_weight", sk.name, ws, x, got, lang.get(x, 0)))
        tot = O.treesums(rules, sk.V, num, []).get(sk.S, 0)
        if tot != sum(lang.values()):
            bad.append(("treesum", sk.name, ws, tot, sum(lang.values())))
        for p in all_strings(sk.V, 2):
            got = O.prefix_weight(rules, sk.V, sk.S, p, num, [])
            want = sum(w for x, w in lang.items() if x[:len(p)] == p)
            if got != want:
                bad.append(("prefix_weight", sk.name, ws, p, got, want))
    return done, bad


def _paths(arcs, start, stop, maxlen, two_tape=False):
    out = {}

    def go(q, label, w, depth):
        if q in stop and stop[q] != 0:
            out[label] = out.get(label, 0) + w * stop[q]
        if depth == 0:
            return
        for i, a, j, wa in arcs:
            if i == q and wa != 0:
                if two_tape:
                    x, y = label
                    nl = (x + ((a[0],) if a[0] != EPS else ()), y + ((a[1],) if a[1] != EPS else ()))
                else:
                    nl = label + ((a,) if a != EPS else ())
                go(j, nl, w * wa, depth - 1)

    for q, w in start.items():
        if w != 0:
            go(q, ((), ()) if two_tape else (), w, maxlen)
    return out


def _acyclic(arcs):
    succ = {}
    for i, a, j, w in arcs:
        if w != 0:
            succ.setdefault(i, set()).add(j)
    nodes = set(succ) | {j for s in succ.values() for j in s}
    for comp in O.sccs(sorted(nodes, key=repr), lambda x: succ.get(x, ())):
        if len(comp) > 1 or comp[0] in succ.get(comp[0], ()):
            return False
    return True


def machines(rnd, n=60):
    num = O.Num(False)
    bad = []
    done = 0
    tries = 0
    pool = [(k, v, False) for k, v in AUTOMATA.items() if k not in ("A-MB", "A-MB4", "A-NUL", "A-MB2", "A-MB3")] + [(k, v, True) for k, v in TRANSDUCERS.items()]
    while done < n and tries < 4000:
        tries += 1
        name, sk, two = rnd.choice(pool)
        ws = [Fraction(rnd.randint(1, 4), rnd.randint(1, 5)) if rnd.random() < 0.6 else Fraction(0) for _ in range(sk.K)]
        na, ni = len(sk.arcs), len(sk.init)
        arcs = [(i, a, j, w) for (i, a, j), w in zip(sk.arcs, ws[:na])]
        if not _acyclic(arcs):
            continue
        done += 1
        start, stop = {}, {}
        for q, w in zip(sk.init, ws[na:na + ni]):
            start[q] = start.get(q, 0) + w
        for q, w in zip(sk.final, ws[na + ni:]):
            stop[q] = stop.get(q, 0) + w
        depth = len({s for (i, _, j, _) in arcs for s in (i, j)}) + 1
        brute = _paths(arcs, start, stop, depth, two_tape=two)
        if two:
            for (x, y), want in brute.items():
                got = O.fst_weight(arcs, start, stop, x, y, num, [])
                if got != want:
                    bad.append(("fst_weight", name, ws, x, y, got, want))
        else:
            alphabet = sorted({a for (_, a, _, _) in arcs if a != EPS})
            for x in all_strings(alphabet, 3):
                got = O.wfsa_weight(arcs, start, stop, x, num, [])
                if got != brute.get(x, 0):
                    bad.append(("wfsa_weight", name, ws, x, got, brute.get(x, 0)))
            tot = O.wfsa_total(arcs, start, stop, num, [])
            if tot != sum(brute.values()):
                bad.append(("wfsa_total", name, ws, tot, sum(brute.values())))
    return done, bad


def closures(rnd, n=40):
    num = O.Num(False)
    bad = []
    for _ in range(n):
        k = rnd.choice([2, 3])
        A = {(i, j): (Fraction(rnd.randint(0, 3), 12) if rnd.random() < 0.7 else Fraction(0)) for i in range(k) for j in range(k)}
        piv = []
        K = O.closure({e: w for e, w in A.items() if w != 0}, range(k), num, piv)
        if not all(p > 0 for p in piv):
            continue
        # power series
        P = {(i, j): Fraction(int(i == j)) for i in range(k) for j in range(k)}
        S = dict(P)
        for _ in range(400):
            P = {(i, j): sum(P[i, m] * A[m, j] for m in range(k)) for i in range(k) for j in range(k)}
            for e in S:
                S[e] += P[e]
        for e in S:
            if abs(float(S[e]) - float(K[e])) > 1e-9:
                bad.append(("closure", A, e, float(K[e]), float(S[e])))
    return n, bad


def main():
    rnd = random.Random(20260923)
    total_bad = []
    for name, fn in (("grammars", grammars), ("machines", machines), ("closures", closures)):
        n, bad = fn(rnd)
        print(f"selftest {name}: {n} instances, {len(bad)} disagreements")
        total_bad += bad
    for b in total_bad[:5]:
        print("  DISAGREEMENT", b)
    return 1 if total_bad else 0


if __name__ == "__main__":
    sys.exit(main())
