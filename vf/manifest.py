"""Regenerate MANIFEST.json from the property modules' INFO blocks: python -m vf.manifest"""
import importlib
import json
import os
import pkgutil
import subprocess
import sys

ROOT = os.path.dirname(os.path.dirname(os.path.abspath(__file__)))
ALL = [f"C{i:02d}" for i in range(1, 21)]

NOT_APPLICABLE = {
    "C14": "Simple.counterexample/min/forward_basis run entirely inside numpy/LAPACK (float64 arrays, np.allclose rank "
           "decisions, linalg.pinv = SVD): no symbolic value survives the C boundary and a QF_FP model of SVD is out of reach; "
           "solver-based checking of the real code cannot apply (DESIGN.md section 4).",
}


def main():
    sys.path.insert(0, ROOT)
    from vf import props

    checks = []
    have = set()
    for m in sorted(pkgutil.iter_modules(props.__path__), key=lambda m: m.name):
        mod = importlib.import_module(f"vf.props.{m.name}")
        info = getattr(mod, "INFO", None)
        if not info or not info.get("claimed", True):
            continue
        pid = m.name.upper()
        have.add(pid)
        checks.append(dict(
            property_id=pid,
            quick_cmd=f"./check {pid} quick",
            thorough_cmd=f"./check {pid} thorough",
            evidence_file=f"evidence/{pid}.json",
            replay_cmd_template=".venv/bin/python -m vf.replay {path}",
            engine="vf-symex",
            level_claimed=dict(category=info.get("level", "other"), text=info["level_text"], design_ref=info.get("design_ref", "DESIGN.md section 3")),
            level_note=info["level_note"],
            technique=info.get("technique", "symbolic execution of the real Python code with z3 deciding every branch and every final obligation (bounded)"),
        ))
    na = [dict(property_id=p, reason=r) for p, r in NOT_APPLICABLE.items()]
    for p in ALL:
        if p not in have and p not in NOT_APPLICABLE:
            na.append(dict(property_id=p, reason="check not built yet (work in progress); will be claimed once its solver-based check is committed"))
    hooks_commits = []
    try:
        out = subprocess.run(["git", "-C", "/repo", "log", "--format=%H %s"], capture_output=True, text=True).stdout
        hooks_commits = [l.split()[0] for l in out.splitlines() if "verif hook" in l.lower()]
    except Exception:
        pass
    man = dict(
        version=1,
        setup_cmd="./setup.sh",
        hooks=dict(guard="GENLM_GRAMMAR_VERIF", enable="environment variable GENLM_GRAMMAR_VERIF=1 (set by vf.run for its worker processes); pure Python, no build step",
                   baseline_off_cmd="cd /repo && env -u GENLM_GRAMMAR_VERIF /venv/bin/python -m pytest -ra -q -p no:cacheprovider --timeout=900 --continue-on-collection-errors",
                   source_commits=hooks_commits, add_only=True),
        engines=[dict(name="vf-symex", path="vf/", serves_properties=sorted(have),
                      kind_free_text="path-forking symbolic executor for the real Python code: symbolic semiring weights (z3 reals) and z3 string/regex theories; z3 decides every branch and every final obligation; counterexamples are replayed concretely")],
        checks=checks,
        not_applicable=sorted(na, key=lambda d: d["property_id"]),
        notes="Every check regenerates its encoding from /repo's working tree on each run. exit 0 = held within the stated bounds; exit 1 + VIOLATION line = reproduced counterexample; exit 3 = harness error (never a verdict). Known findings: known_findings.json.",
    )
    with open(os.path.join(ROOT, "MANIFEST.json"), "w") as f:
        json.dump(man, f, indent=1)
    print("MANIFEST.json:", len(checks), "checks;", len(na), "not applicable")


if __name__ == "__main__":
    main()
