"""Check driver: python -m vf.run <PROPERTY> [--tier quick|thorough]

exit 0  property held on everything explored (KNOWN-FINDING lines allowed)
exit 1  VIOLATION property=<id> replay=<path>
exit 3  harness error (never a verdict)
"""
import argparse
import collections
import importlib
import json
import os
import queue
import re
import subprocess
import sys
import threading
import time

ROOT = os.path.dirname(os.path.dirname(os.path.abspath(__file__)))
PY = os.path.join(ROOT, ".venv", "bin", "python")


class Pool:
    def __init__(self, nproc, job_timeout):
        self.nproc = nproc
        self.job_timeout = job_timeout
        self.results = []
        self.lock = threading.Lock()

    def _spawn(self, seed):
        env = dict(os.environ)
        env["PYTHONHASHSEED"] = str(seed)
        # VERIF_REPO (optional): run against another checkout of the repository instead of /repo
        alt = os.environ.get("VERIF_REPO")
        env["PYTHONPATH"] = (alt + ":" if alt else "") + ROOT
        env.setdefault("GENLM_GRAMMAR_VERIF", "1")
        p = subprocess.Popen([PY, "-m", "vf.worker"], stdin=subprocess.PIPE, stdout=subprocess.PIPE,
                             stderr=subprocess.DEVNULL, env=env, cwd=ROOT, text=True, bufsize=1)
        line = p.stdout.readline()
        if not line or "ready" not in line:
            raise RuntimeError("worker failed to start")
        return p

    def _readline(self, p, timeout):
        box = []

        def rd():
            box.append(p.stdout.readline())

        t = threading.Thread(target=rd, daemon=True)
        t.start()
        t.join(timeout)
        if t.is_alive():
            return None
        return box[0]

    def _work(self, queues):
        while True:
            seed = None
            with self.lock:
                for s, q in queues.items():
                    if q:
                        seed = s
                        break
            if seed is None:
                return
            p = self._spawn(seed)
            while True:
                with self.lock:
                    q = queues[seed]
                    job = q.popleft() if q else None
                if job is None:
                    break
                try:
                    p.stdin.write(json.dumps(job) + "\n")
                    p.stdin.flush()
                    line = self._readline(p, job.get("timeout", self.job_timeout))
                except (BrokenPipeError, OSError):
                    line = ""
                if not line:
                    why = "timeout" if line is None else "worker died (memory limit?)"
                    p.kill()
                    with self.lock:
                        self.results.append(dict(job_id=job["job_id"], resource=why))
                    p = self._spawn(seed)
                    continue
                with self.lock:
                    self.results.append(json.loads(line))
            try:
                p.stdin.close()
                p.wait(timeout=5)
            except Exception:
                p.kill()

    def run(self, jobs):
        queues = collections.OrderedDict()
        # longest first inside each seed
        for j in sorted(jobs, key=lambda j: -j.get("cost", 1)):
            queues.setdefault(j.get("hashseed", 0), collections.deque()).append(j)
        threads = [threading.Thread(target=self._work, args=(queues,)) for _ in range(min(self.nproc, len(jobs)))]
        for t in threads:
            t.start()
        for t in threads:
            t.join()
        return self.results


def load_known():
    p = os.path.join(ROOT, "known_findings.json")
    if not os.path.exists(p):
        return []
    return json.load(open(p)).get("findings", [])


def main(argv=None):
    ap = argparse.ArgumentParser()
    ap.add_argument("prop")
    ap.add_argument("--tier", default=os.environ.get("VERIF_TIER", "quick"))
    ap.add_argument("--nproc", type=int, default=int(os.environ.get("VERIF_NPROC", "16")))
    ap.add_argument("--only", default=None, help="regex on case name (development)")
    ap.add_argument("--no-evidence", action="store_true")
    a = ap.parse_args(argv)
    prop = a.prop.upper()
    tier = a.tier if a.tier in ("quick", "thorough") else "quick"
    seed = int(os.environ.get("VERIF_SEED", "0") or 0)
    t0 = time.time()
    sys.path.insert(0, ROOT)
    mod = importlib.import_module(f"vf.props.{prop.lower()}")
    jobs = mod.jobs(tier, seed)
    if a.only:
        jobs = [j for j in jobs if re.search(a.only, j["case"])]
    for i, j in enumerate(jobs):
        j["job_id"] = i
        j["prop"] = prop
        if tier == "quick":
            # a quick job normally takes seconds; a rare solver hang must not stall the whole check: cut it (inconclusive)
            j["timeout"] = min(j.get("timeout", 300), 300)
    info = getattr(mod, "INFO", {})
    pool = Pool(a.nproc, job_timeout=info.get("job_timeout", 600 if tier == "quick" else 1800))
    results = pool.run(jobs)
    by_id = {r["job_id"]: r for r in results}

    from . import evidence

    rc = evidence.finish(prop, tier, seed, jobs, by_id, info, time.time() - t0, load_known(), write=not a.no_evidence)
    return rc


if __name__ == "__main__":
    sys.exit(main())
