"""Aggregate worker results into a verdict, replay files, KNOWN-FINDING / VIOLATION lines and the evidence file."""
import json
import os
import re

ROOT = os.path.dirname(os.path.dirname(os.path.abspath(__file__)))


def match_known(known, prop, sig):
    for k in known:
        if k.get("property") != prop or k.get("status") != "known":
            continue
        if re.fullmatch(k["signature"], sig):
            return k
    return None


def _inputs(jobs):
    "measured: the skeletons / patterns / grammars / types and hash seeds this run actually used"
    out = {}
    for j in jobs:
        for k in ("shape", "f", "g", "fst", "pattern", "grammar", "acceptor", "type", "shapes", "kind"):
            v = j["params"].get(k)
            if v is not None:
                out.setdefault(k, set()).add(json.dumps(v, ensure_ascii=False) if not isinstance(v, str) else v)
        out.setdefault("hash_seeds", set()).add(str(j.get("hashseed", 0)))
        for k in ("L", "n"):
            if k in j["params"]:
                out.setdefault(k, set()).add(str(j["params"][k]))
    return {k: sorted(v) for k, v in out.items()}


def finish(prop, tier, seed, jobs, by_id, info, wall, known, write=True):
    tot = dict(obligations=0, discharged=0, inconclusive=0, oob=0, paths=0, cuts=0, nontrivial=0,
               bool_checks=0, z3_queries=0, z3_seconds=0.0, shadow_answers=0, vacuity_sat=0,
               by_rewriter=0, by_identity=0, star_obligations=0, star_discharged=0)
    entered = set()
    samples = []
    notes = []
    harness_errors = []
    violations = []
    canary_ok = canary_total = 0
    per_case = {}
    resource = 0
    for j in jobs:
        r = by_id.get(j["job_id"])
        cname = j["case"]
        pc = per_case.setdefault(cname, dict(jobs=0, paths=0, obligations=0, discharged=0, inconclusive=0, oob=0))
        pc["jobs"] += 1
        if r is None:
            harness_errors.append(f"job {j['job_id']} ({cname}) produced no result")
            continue
        if "harness_error" in r:
            harness_errors.append(f"job {j['job_id']} ({cname} {json.dumps(j['params'])[:200]}): {r['harness_error']}\n{r.get('tb', '')}")
            continue
        if "resource" in r:
            resource += 1
            tot["inconclusive"] += 1
            pc["inconclusive"] += 1
            notes.append(f"job {j['job_id']} ({cname}): {r['resource']} -> inconclusive")
            continue
        is_canary = bool(j["params"].get("canary"))
        if is_canary:
            canary_total += 1
            if any(v.get("reproduced") for v in r["violations"]):
                canary_ok += 1
            else:
                harness_errors.append(f"canary job {j['job_id']} ({cname}) found no violation: vacuous harness?")
            continue
        for k in ("obligations", "discharged", "inconclusive", "oob", "paths", "cuts", "nontrivial", "bool_checks", "vacuity_sat",
                  "by_rewriter", "by_identity", "star_obligations", "star_discharged"):
            tot[k] += r.get(k, 0)
        for k in ("paths", "obligations", "discharged", "inconclusive", "oob"):
            pc[k] += r.get(k, 0)
        ex = r.get("explore", {})
        tot["z3_queries"] += ex.get("z3_queries", 0) + r.get("ob_queries", 0)
        tot["z3_seconds"] += ex.get("z3_seconds", 0) + r.get("ob_seconds", 0)
        tot["shadow_answers"] += ex.get("shadow_answers", 0)
        entered.update(r.get("functions_entered", []))
        for s in r.get("samples", []):
            if len(samples) < 12 and all(s.get("label") != t.get("label") or cname != t.get("case") for t in samples):
                samples.append(dict(case=cname, params={k: v for k, v in j["params"].items() if k in ("shape", "f", "g", "pattern", "grammar", "type")}, **s))
        for n in r.get("notes", []):
            if len(notes) < 20:
                notes.append(f"{cname}: {n}")
        for v in r["violations"]:
            violations.append((j, v))

    os.makedirs(os.path.join(ROOT, "replays"), exist_ok=True)
    lines = []
    rc = 0
    seen_known = {}
    nviol = 0
    reported = set()
    for j, v in violations:
        sig = f"{j['case']}/{v['sig']}"
        if not v.get("reproduced"):
            if v.get("kind") == "exc":
                # the symbolic proxy raised where the concrete run (same weights, same choices) does not: a limitation of
                # the proxy on that path, counted inconclusive (DESIGN 2.2), never a verdict
                tot["inconclusive"] += 1
                if len(notes) < 20:
                    notes.append(f"{sig}: exception under the symbolic proxy only (concrete replay with {v.get('values')} does not raise): path unsupported")
                continue
            harness_errors.append(f"counterexample did not reproduce on the real code: {sig} values={v.get('values')}")
            continue
        k = match_known(known, prop, sig)
        if k is not None:
            seen_known.setdefault(k["signature"], (k, 0))
            seen_known[k["signature"]] = (k, seen_known[k["signature"]][1] + 1 + v.get("more", 0))
            continue
        nviol += 1
        if sig in reported:
            continue
        reported.add(sig)
        path = os.path.join(ROOT, "replays", f"{prop}_{len(reported)}.json")
        with open(path, "w") as f:
            json.dump(dict(property=prop, case=j["case"], params=j["params"], hashseed=j.get("hashseed", 0),
                           values=v["values"], choices=v.get("choices", []), label=v["label"], signature=sig,
                           observed=v.get("why", "")), f, indent=1, default=str)
        lines.append(f"VIOLATION property={prop} replay={path}")
        lines.append(f"  {sig}: {v.get('why', '')[:300]}")
        rc = 1
    for sigk, (k, n) in seen_known.items():
        lines.append(f"KNOWN-FINDING: property={prop} {k['what']} [{n} occurrence(s) this run]")
    if harness_errors:
        for h in harness_errors[:10]:
            lines.append("HARNESS-ERROR " + h[:1500])
        if rc == 0:
            rc = 3

    level = info.get("level", "other")
    cov = dict(
        explanation=info.get("explanation", ""),
        obligations=tot["obligations"], discharged=tot["discharged"], inconclusive=tot["inconclusive"],
        out_of_bounds=tot["oob"],
        evaluations=max(tot["obligations"], 1),
        distinct_nontrivial=tot["nontrivial"],
        rule=info.get("rule", "one obligation per (case, sub-shape path, input, observable); non-trivial = the reference value is not identically zero / the structural check ran on a non-empty object; paths are distinct zero/non-zero weight patterns so obligations are distinct"),
        samples=samples or [dict(note="no sample collected")],
        paths=tot["paths"], z3_queries=tot["z3_queries"], z3_seconds=round(tot["z3_seconds"], 2),
        shadow_answers=tot["shadow_answers"], tolerance_cuts=tot["cuts"], paths_with_model=tot["vacuity_sat"],
        canaries=dict(run=canary_total, detected=canary_ok),
        discharged_by=dict(rewriter=tot["by_rewriter"], identity=tot["by_identity"], boolean_per_path=tot["bool_checks"],
                           solver_search=tot["discharged"] - tot["by_rewriter"] - tot["by_identity"] - tot["bool_checks"]),
        star_argument_check=dict(paths_with_star=tot["star_obligations"], implied_by_pivots=tot["star_discharged"],
                                 note="paths on which z3 showed (oracle pivots > 0) => (every star argument the implementation formed < 1); elsewhere the identities are established wherever the implementation's own star arguments are < 1"),
        jobs=len(jobs), jobs_resource_limited=resource,
        inputs_run=_inputs(jobs),
        per_case=per_case,
        functions_entered=sorted(entered),
        bounds=info.get("bounds", {}).get(tier, info.get("bounds", {})),
        stubs=info.get("stubs", []),
        outside=info.get("outside", []),
        notes=notes,
        checker_cmd=f".venv/bin/python -m vf.run {prop} --tier {tier}",
        trusted_base=["CPython 3.12", "z3 5.1.0 (z3-solver wheel)", "vf.sym proxies (exact real arithmetic)", "vf.oracle reference models", "vf.sym.ratform normaliser"],
        exhaustive=False,
        known_findings_seen=[k["what"] for k, _ in seen_known.values()],
    )
    ev = dict(property_id=prop, tier=tier, seed=seed, level=level, coverage=cov,
              assumptions=info.get("assumptions", []), wall_s=round(wall, 2), violations=nviol)
    if write:
        os.makedirs(os.path.join(ROOT, "evidence"), exist_ok=True)
        with open(os.path.join(ROOT, "evidence", f"{prop}.json"), "w") as f:
            json.dump(ev, f, indent=1, default=str)
    print(f"[{prop} {tier}] jobs={len(jobs)} paths={tot['paths']} obligations={tot['obligations']} discharged={tot['discharged']} "
          f"inconclusive={tot['inconclusive']} out_of_bounds={tot['oob']} violations={nviol} canaries={canary_ok}/{canary_total} "
          f"z3_queries={tot['z3_queries']} z3_s={tot['z3_seconds']:.1f} wall={wall:.1f}s")
    slow = sorted(((by_id[j["job_id"]].get("job_wall_s", 0), j["case"], json.dumps(j["params"])[:110]) for j in jobs if j["job_id"] in by_id), reverse=True)[:3]
    for s in slow:
        print(f"  slowest: {s[0]}s {s[1]} {s[2]}")
    for l in lines:
        print(l)
    return rc
