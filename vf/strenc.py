"""String-symbolic encodings: regex -> z3.Re (independent of interegular), automata / grammars unrolled
for a symbolic z3 string."""
import re
import re._constants as C
import re._parser as P

import z3


def charset_re(chars):
    "z3 regex matching exactly one character of `chars`"
    cs = sorted(set(chars))
    if not cs:
        return z3.Empty(z3.ReSort(z3.StringSort()))
    rs = []
    for c in cs:
        if rs and ord(c) == ord(rs[-1][1]) + 1:
            rs[-1][1] = c
        else:
            rs.append([c, c])
    parts = [z3.Range(a, b) if a != b else z3.Re(z3.StringVal(a)) for a, b in rs]
    return parts[0] if len(parts) == 1 else z3.Union(*parts)


def sval(c):
    return z3.StringVal(c)


class Unsupported(Exception):
    pass


def _char_matches(item_src_flags, c):
    pat, flags = item_src_flags
    return re.fullmatch(pat, c, flags) is not None


def _class_pattern(items):
    "source text of a character class from parsed IN items"
    out = []
    neg = False
    for op, av in items:
        if op is C.NEGATE:
            neg = True
        elif op is C.LITERAL:
            out.append(re.escape(chr(av)))
        elif op is C.RANGE:
            lo, hi = av
            out.append(f"{re.escape(chr(lo))}-{re.escape(chr(hi))}")
        elif op is C.CATEGORY:
            out.append({C.CATEGORY_DIGIT: r"\d", C.CATEGORY_NOT_DIGIT: r"\D", C.CATEGORY_SPACE: r"\s", C.CATEGORY_NOT_SPACE: r"\S",
                        C.CATEGORY_WORD: r"\w", C.CATEGORY_NOT_WORD: r"\W"}[av])
        else:
            raise Unsupported(f"class item {op}")
    return "[" + ("^" if neg else "") + "".join(out) + "]"


def bytes_re(chars):
    "z3 regex matching the UTF-8 encoding (bytes as code points 0..255) of exactly one character of `chars`"
    single = [c for c in chars if len(c.encode("utf-8")) == 1]
    multi = [c for c in chars if len(c.encode("utf-8")) > 1]
    parts = []
    if single:
        parts.append(charset_re(single))
    for c in sorted(multi):
        parts.append(z3.Re(z3.StringVal("".join(chr(b) for b in c.encode("utf-8")))))
    if not parts:
        return z3.Empty(z3.ReSort(z3.StringSort()))
    return parts[0] if len(parts) == 1 else z3.Union(*parts)


def regex_to_z3(pattern, charset, flags=0, emit=None):
    """z3 regular expression of `pattern` restricted to strings over `charset`.
    Single-character predicates (literals under flags, classes, categories, dot) are evaluated by
    CPython's `re` on each character of the charset; the structure is translated here.
    `emit(chars)` renders a set of characters (default: one character; bytes_re: its UTF-8 bytes)."""
    charset = sorted(set(charset))
    tree = P.parse(pattern, flags)
    gflags = tree.state.flags
    emit = emit or charset_re

    def one(src, fl):
        return emit([c for c in charset if re.fullmatch(src, c, fl) is not None])

    def seq(items, fl):
        parts = [node(op, av, fl) for op, av in items]
        if not parts:
            return z3.Re(z3.StringVal(""))
        return parts[0] if len(parts) == 1 else z3.Concat(*parts)

    def node(op, av, fl):
        if op is C.LITERAL:
            return one(re.escape(chr(av)), fl)
        if op is C.NOT_LITERAL:
            return one("[^" + re.escape(chr(av)) + "]", fl)
        if op is C.ANY:
            return one(".", fl)
        if op is C.IN:
            return one(_class_pattern(av), fl)
        if op is C.BRANCH:
            _, alts = av
            rs = [seq(a, fl) for a in alts]
            return rs[0] if len(rs) == 1 else z3.Union(*rs)
        if op is C.SUBPATTERN:
            group, add, dele, p = av
            return seq(p, (fl | add) & ~dele)
        if op in (C.MAX_REPEAT, C.MIN_REPEAT):
            lo, hi, p = av
            r = seq(p, fl)
            if hi is C.MAXREPEAT:
                if lo == 0:
                    return z3.Star(r)
                if lo == 1:
                    return z3.Plus(r)
                return z3.Concat(z3.Loop(r, lo, lo), z3.Star(r))
            return z3.Loop(r, lo, hi)
        if op is C.AT:
            if av in (C.AT_BEGINNING, C.AT_BEGINNING_STRING, C.AT_END, C.AT_END_STRING):
                raise Unsupported("anchor")
            raise Unsupported(f"AT {av}")
        raise Unsupported(f"regex node {op}")

    return seq(list(tree), gflags)


def unroll_nfa(s, L, arcs, inits, finals, chars_of):
    """acceptance of the symbolic string s (|s| <= L) by an NFA given as arcs [(i, label, j)] with
    single-character labels grouped by chars_of: {(i, j): set(chars)}.  Returns a z3 Bool."""
    states = sorted({q for q in inits} | {q for q in finals} | {i for (i, j) in chars_of} | {j for (i, j) in chars_of}, key=repr)
    n = z3.Length(s)
    R = [{q: z3.BoolVal(q in inits) for q in states}]
    ch = [z3.SubString(s, t, 1) for t in range(L)]
    cre = {k: charset_re(v) for k, v in chars_of.items()}
    by_target = {}
    for (i, j) in chars_of:
        by_target.setdefault(j, []).append(i)
    for t in range(L):
        nxt = {}
        for q in states:
            terms = [z3.And(R[t][i], z3.InRe(ch[t], cre[i, q])) for i in by_target.get(q, [])]
            nxt[q] = z3.Or(*terms) if terms else z3.BoolVal(False)
        R.append(nxt)
    acc = []
    for t in range(L + 1):
        fin = [R[t][f] for f in finals if f in R[t]]
        acc.append(z3.And(n == t, z3.Or(*fin) if fin else z3.BoolVal(False)))
    return z3.Or(*acc)


def z3_str(model, var):
    "python string of a z3 string value (z3 prints non-printable characters as \\u{..})"
    v = model.eval(var, model_completion=True)
    raw = v.as_string()
    return re.sub(r"\\u\{([0-9a-fA-F]+)\}", lambda m: chr(int(m.group(1), 16)), raw)


def encode_cfg_membership(rules, V, S, s, n, term_eq=None):
    """z3 Bool: the grammar (rules [(head, body)], terminals V, start S) derives the symbolic string s of
    length exactly n.  Bounded inside encoding D[X,i,k]; nullable set and unary(-after-null) closure are
    computed concretely here (independent of /repo).  Rules that differ in one terminal position only are
    grouped into character classes."""
    rules = [(h, tuple(b)) for h, b in rules if h not in V]
    NT = []
    for h, b in rules:
        for x in (h,) + b:
            if x not in V and x not in NT:
                NT.append(x)
    if S not in NT:
        NT.append(S)
    nullable = set()
    ch = True
    while ch:
        ch = False
        for h, b in rules:
            if h not in nullable and all((y not in V) and y in nullable for y in b):
                nullable.add(h)
                ch = True
    # unary-like closure: X =>* Y through rules whose other symbols are all nullable
    U = {X: {X} for X in NT}
    ch = True
    while ch:
        ch = False
        for h, b in rules:
            for t, y in enumerate(b):
                if y in V:
                    continue
                if all((z not in V) and z in nullable for j, z in enumerate(b) if j != t):
                    for X in NT:
                        if h in U[X] and y not in U[X]:
                            U[X].add(y)
                            ch = True
    if n == 0:
        return z3.BoolVal(S in nullable)
    # group rules by their shape with terminals abstracted
    groups = {}
    for h, b in rules:
        if not b:
            continue
        tpos = [t for t, y in enumerate(b) if y in V]
        if len(tpos) == 1:
            key = (h, tuple("\0T" if y in V else y for y in b), tpos[0])
            groups.setdefault(key, set()).add(b[tpos[0]])
        else:
            groups.setdefault((h, b, None), set())
    chars = [z3.SubString(s, i, 1) for i in range(n)]
    if term_eq is None:
        def term_eq(i, cs):
            return z3.InRe(chars[i], charset_re(cs))
    D = {}

    def val(y, i, k, cls=None):
        if cls is not None:
            return term_eq(i, cls) if k == i + 1 else z3.BoolVal(False)
        if y in V:
            return term_eq(i, {y}) if k == i + 1 else z3.BoolVal(False)
        if k == i:
            return z3.BoolVal(y in nullable)
        return D[y, i, k]

    for d in range(1, n + 1):
        for i in range(n - d + 1):
            k = i + d
            base = {X: [] for X in NT}
            for (h, b, tp), cls in groups.items():
                m = len(b)
                for cuts in itertools.combinations_with_replacement(range(i, k + 1), m - 1):
                    js = (i,) + cuts + (k,)
                    full = [t for t in range(m) if js[t] == i and js[t + 1] == k]
                    if len(full) == 1 and (tp is None or full[0] != tp) and b[full[0]] not in V and b[full[0]] != "\0T" \
                            and all(js[t] == js[t + 1] for t in range(m) if t != full[0]):
                        continue  # unary-like step, handled by the closure U
                    conj = []
                    ok = True
                    for t in range(m):
                        v = val(b[t], js[t], js[t + 1], cls if t == tp else None)
                        if z3.is_false(v):
                            ok = False
                            break
                        if not z3.is_true(v):
                            conj.append(v)
                    if ok:
                        base[h].append(z3.And(*conj) if conj else z3.BoolVal(True))
            bexpr = {X: (z3.Or(*alts) if alts else z3.BoolVal(False)) for X, alts in base.items()}
            for X in NT:
                D[X, i, k] = z3.simplify(z3.Or(*[bexpr[Y] for Y in U[X]]))
    return D[S, 0, n]


import itertools  # noqa: E402
