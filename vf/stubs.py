"""Stubs.  Each one is part of the claim of the checks that use it."""
import contextlib

from . import engine as E


class NondetHeap:
    """Contract-only replacement of arsenal's Cython LocatorMaxHeap: `pop` returns *some* key of
    maximal priority; which one is an engine choice, so every tie-break order is explored."""

    def __init__(self):
        self.d = {}

    def __setitem__(self, k, v):
        self.d[k] = v

    def __getitem__(self, k):
        return self.d[k]

    def __contains__(self, k):
        return k in self.d

    def __len__(self):
        return len(self.d)

    def __bool__(self):
        return bool(self.d)

    def pop(self):
        m = max(self.d.values())
        ties = sorted((k for k, v in self.d.items() if v == m), key=repr)
        i = E.ENG.choose(len(ties), "heap")
        k = ties[i]
        del self.d[k]
        return k, m


@contextlib.contextmanager
def heap(kind):
    import genlm.grammar.parse.earley as e1
    import genlm.grammar.parse.earley_rescaled as e2

    if kind != "nondet":
        yield
        return
    o1, o2 = e1.LocatorMaxHeap, e2.LocatorMaxHeap
    e1.LocatorMaxHeap = e2.LocatorMaxHeap = NondetHeap
    try:
        yield
    finally:
        e1.LocatorMaxHeap, e2.LocatorMaxHeap = o1, o2
