"""Stubs.  Each one is part of the claim of the checks that use it."""
import contextlib

from . import engine as E


class NondetHeap:
    """Contract-only replacement of arsenal's Cython LocatorMaxHeap: `pop` returns *some* key of
    maximal priority; which one is an engine choice, so every tie-break order is explored."""

    def __init__(self):
        self.d = {}

    def __setitem__(self, k, v):
        self.d[k] = v

    def __getitem__(self, k):
        return self.d[k]

    def __contains__(self, k):
        return k in self.d

    def __len__(self):
        return len(self.d)

    def __bool__(self):
        return bool(self.d)

    def pop(self):
        m = max(self.d.values())
        ties = sorted((k for k, v in self.d.items() if v == m), key=repr)
        i = E.ENG.choose(len(ties), "heap")
        k = ties[i]
        del self.d[k]
        return k, m


@contextlib.contextmanager
def heap(kind):
    import genlm.grammar.parse.earley as e1
    import genlm.grammar.parse.earley_rescaled as e2

    if kind != "nondet":
        yield
        return
    o1, o2 = e1.LocatorMaxHeap, e2.LocatorMaxHeap
    e1.LocatorMaxHeap = e2.LocatorMaxHeap = NondetHeap
    try:
        yield
    finally:
        e1.LocatorMaxHeap, e2.LocatorMaxHeap = o1, o2


class NondetChartMixin:
    pass


def make_nondet_chart():
    """Chart subclass whose popitem returns an engine-chosen key: every agenda pop order is a path."""
    from genlm.grammar.chart import Chart

    class NondetChart(Chart):
        pops = 0

        def popitem(self):
            keys = sorted(self.keys(), key=repr)
            i = E.ENG.choose(len(keys), "pop")
            k = keys[i]
            v = dict.pop(self, k)
            NondetChart.pops += 1
            return k, v

        def spawn(self):
            return NondetChart(self.semiring)

    return NondetChart


@contextlib.contextmanager
def chart(kind):
    from . import sym as S
    from genlm.grammar.chart import Chart

    if kind != "nondet":
        yield None
        return
    old = S.CHART_FACTORY[0]
    cls = make_nondet_chart()
    S.CHART_FACTORY[0] = cls
    try:
        yield cls
    finally:
        S.CHART_FACTORY[0] = old


@contextlib.contextmanager
def agenda_hook(fn):
    import genlm.grammar.cfg as C

    if C._VERIF_HOOKS is None:
        raise E.HarnessError("hook H1 unavailable: GENLM_GRAMMAR_VERIF=1 not set when genlm.grammar.cfg was imported")
    C._VERIF_HOOKS["agenda"] = fn
    try:
        yield
    finally:
        C._VERIF_HOOKS.pop("agenda", None)


@contextlib.contextmanager
def agenda_summary(ctx, when=lambda cfg: True, algebraic=False):
    """Closed-form summary of CFG.agenda: the exact least solution when every SCC of the equation
    system is linear (Cramer), OutOfBounds otherwise.  Its contract is what C08 checks.  Used only in
    harnesses whose subject is not the agenda itself; `when(cfg)` lets finite systems run un-stubbed."""
    import genlm.grammar.cfg as C
    from . import oracle as O

    orig = C.CFG.agenda
    used = {"n": 0}

    def agenda(self, tol=1e-12, maxiter=100_000):
        if self.R is not ctx.D.R or not when(self):
            return orig(self, tol=tol, maxiter=maxiter)
        used["n"] += 1
        rules = [(ctx.D.term(r.w), r.head, tuple(r.body)) for r in self.rules]
        piv = []
        alg = [] if algebraic else None
        Z = O.treesums(rules, set(self.V), ctx.num, piv, algebraic=alg)
        for c in alg or []:
            if ctx.symbolic and c is not True:
                E.ENG.hypothesis(c)
        for p in piv:
            if ctx.symbolic:
                E.ENG.hypothesis(p > 0)
            elif not p > 0:
                raise OverflowError("divergent system in concrete replay")
        chart = self.R.chart()
        for a in self.V:
            chart[a] = self.R.one
        for X, z in Z.items():
            if not O.is_zero(z):
                chart[X] = ctx.D.wrap(z, positive=True)
        return chart

    C.CFG.agenda = agenda
    try:
        yield used
    finally:
        C.CFG.agenda = orig


def finite_system(cfg):
    "does the grammar's equation system have finitely many derivations (dependency graph of the generating part acyclic)?"
    from . import oracle as O

    V = set(cfg.V)
    live = [(r.head, tuple(r.body)) for r in cfg.rules]
    gen = O.generating_set([(1, h, b) for h, b in live], V)
    dep = {}
    for h, b in live:
        if h in gen and all(y in gen for y in b):
            dep.setdefault(h, set()).update(y for y in b if y not in V)
    for comp in O.sccs(list(dep), lambda x: dep.get(x, ())):
        if len(comp) > 1 or comp[0] in dep.get(comp[0], ()):
            return False
    return True
