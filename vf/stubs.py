"""Stubs.  Each one is part of the claim of the checks that use it."""
import contextlib

from . import engine as E


class NondetHeap:
    """Contract-only replacement of arsenal's Cython LocatorMaxHeap: `pop` returns *some* key of
    maximal priority; which one is an engine choice, so every tie-break order is explored."""

    def __init__(self):
        self.d = {}

    def __setitem__(self, k, v):
        self.d[k] = v

    def __getitem__(self, k):
        return self.d[k]

    def __contains__(self, k):
        return k in self.d

    def __len__(self):
        return len(self.d)

    def __bool__(self):
        return bool(self.d)

    def pop(self):
        m = max(self.d.values())
        ties = sorted((k for k, v in self.d.items() if v == m), key=repr)
        i = E.ENG.choose(len(ties), "heap")
        k = ties[i]
        del self.d[k]
        return k, m


@contextlib.contextmanager
def heap(kind):
    import genlm.grammar.parse.earley as e1
    import genlm.grammar.parse.earley_rescaled as e2

    if kind != "nondet":
        yield
        return
    o1, o2 = e1.LocatorMaxHeap, e2.LocatorMaxHeap
    e1.LocatorMaxHeap = e2.LocatorMaxHeap = NondetHeap
    try:
        yield
    finally:
        e1.LocatorMaxHeap, e2.LocatorMaxHeap = o1, o2


class NondetChartMixin:
    pass


def make_nondet_chart():
    """Chart subclass whose popitem returns an engine-chosen key: every agenda pop order is a path."""
    from genlm.grammar.chart import Chart

    class NondetChart(Chart):
        pops = 0

        def popitem(self):
            keys = sorted(self.keys(), key=repr)
            i = E.ENG.choose(len(keys), "pop")
            k = keys[i]
            v = dict.pop(self, k)
            NondetChart.pops += 1
            return k, v

        def spawn(self):
            return NondetChart(self.semiring)

    return NondetChart


@contextlib.contextmanager
def chart(kind):
    from . import sym as S
    from genlm.grammar.chart import Chart

    if kind != "nondet":
        yield None
        return
    old = S.CHART_FACTORY[0]
    cls = make_nondet_chart()
    S.CHART_FACTORY[0] = cls
    try:
        yield cls
    finally:
        S.CHART_FACTORY[0] = old


@contextlib.contextmanager
def agenda_hook(fn):
    import genlm.grammar.cfg as C

    if C._VERIF_HOOKS is None:
        raise E.HarnessError("hook H1 unavailable: GENLM_GRAMMAR_VERIF=1 not set when genlm.grammar.cfg was imported")
    C._VERIF_HOOKS["agenda"] = fn
    try:
        yield
    finally:
        C._VERIF_HOOKS.pop("agenda", None)
