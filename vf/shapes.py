"""Skeleton catalogue.  Every weight is free in [0, inf) unless its index is in `always`,
so a skeleton of K rules/arcs stands for its whole lattice of 2^K sub-shapes."""
import itertools

EPS = ""


class G:
    def __init__(self, name, rules, S="S", V=("a", "b"), always=(), note=""):
        self.name = name
        self.rules = [(h, tuple(b.split()) if isinstance(b, str) else tuple(b)) for h, b in rules]
        self.S = S
        self.V = set(V)
        self.always = set(always)
        self.note = note

    @property
    def K(self):
        return len(self.rules)


GRAMMARS = {}


def _g(*a, **k):
    g = G(*a, **k)
    GRAMMARS[g.name] = g
    return g


# nullable x unary cycle x recursion (the probed one)
_g("G-NU", [("S", "A S"), ("S", "a"), ("A", ""), ("A", "b"), ("S", "B"), ("B", "S"), ("B", "b b")],
   note="nullable symbol, unary cycle S<->B, right recursion")
# centre recursion, nullary
_g("G-PAL", [("S", "a S a"), ("S", "b S b"), ("S", ""), ("S", "a"), ("S", "b")], note="palindromes")
# repeated symbol, ambiguity
_g("G-CAT", [("S", "S S"), ("S", "a"), ("S", "b")], note="Catalan ambiguity, non-linear recursion")
# left and right recursion, unary chain
_g("G-LR", [("S", "S a"), ("S", "b S"), ("S", "A"), ("A", "B"), ("B", "a"), ("B", "")],
   note="left+right recursion, unary chain to a nullable")
# unary cycle through the start symbol, start on RHS
_g("G-UC", [("S", "A"), ("A", "S"), ("A", "B"), ("B", "A"), ("S", "a"), ("B", "b"), ("S", "S b")],
   note="unary cycles S<->A<->B, start symbol on right-hand sides")
# duplicate rules, non-generating and unreachable symbols
_g("G-DUP", [("S", "a"), ("S", "a"), ("S", "A B"), ("A", "a"), ("B", "B b"), ("C", "a"), ("S", "C D"), ("D", "D")],
   note="duplicates, non-generating B and D, unreachable C when S->C D dies")
# three nullables in long bodies
_g("G-NULL3", [("S", "A B C"), ("S", "A a B C"), ("A", ""), ("A", "a"), ("B", ""), ("B", "b"), ("C", ""), ("C", "A")],
   note="bodies of length 3-4 with three nullable symbols")
# agenda priorities tie on this shape
_g("G-WIDE", [("S", "X"), ("X", "a Z"), ("X", "a Y"), ("X", "a P"), ("Z", "b"), ("Y", "b"), ("P", "b")],
   note="S->X; X->a Y_i; Y_i->b: dependent agenda items of equal span")
# finite language (LM checks without stubs)
_g("G-FIN", [("S", "a A"), ("S", "b"), ("A", "b"), ("A", "a b"), ("A", ""), ("S", "A A")],
   note="finite language, nullable A, repeated symbol")
# linear recursion, infinitely many completions
_g("G-LIN", [("S", "a S"), ("S", "b S b"), ("S", ""), ("S", "A"), ("A", "a")],
   note="linear recursion")
# start symbol unproductive
_g("G-DEAD", [("S", "A B"), ("A", "a"), ("B", "B"), ("B", "S b")], note="start symbol may be unproductive")
# symbol three times in a body
_g("G-TRI", [("S", "A A A"), ("A", "a"), ("A", ""), ("A", "b S")], note="symbol repeated three times")
# two-SCC mutual recursion
_g("G-MUT", [("S", "A b"), ("A", "S a"), ("A", "a"), ("S", "b"), ("S", "A A")], note="mutual recursion S<->A")
# small ones used where path counts multiply
_g("G-S1", [("S", "a S"), ("S", "a"), ("S", "")], note="tiny right recursion")
_g("G-S2", [("S", "A b"), ("A", "a"), ("A", ""), ("S", "S S")], note="tiny non-linear")
_g("G-NUC", [("S", "A b"), ("A", "B"), ("B", "A"), ("A", ""), ("B", "a"), ("S", "A")], note="nullable unary cycle A<->B (linear cyclic null system)")
_g("G-INT", [("S", (0, "S")), ("S", (1,)), ("S", ()), ("S", ("A", 0)), ("A", (1, 1))], V=(0, 1), note="integer tokens including the falsy token 0")
_g("G-DUP2", [("S", "A S"), ("S", "A S"), ("S", "a"), ("A", "b"), ("A", ""), ("S", "a")], note="a duplicated rule with nonterminals in its body")
_g("G-HEADLESS", [("S", "A"), ("A", "a"), ("A", "Z"), ("S", "Z b"), ("A", "S")], note="symbol Z occurs only in rule bodies (neither terminal nor head)")
_g("G-REP", [("S", "A"), ("S", "A A"), ("A", "a"), ("A", "b A"), ("S", "A S A"), ("S", "b")], note="same symbol set with different multiplicities in consecutive rules")
_g("G-NB", [("S", "A B c"), ("A", "a"), ("A", ""), ("B", "b"), ("B", ""), ("S", "B A S")], V=("a", "b", "c"),
   note="rule of length three whose first two symbols are both nullable (binarisation folds exactly that pair)")
_g("G-2CYC", [("S", "T"), ("T", "S"), ("A", "A"), ("T", "A"), ("A", "a"), ("S", "b"), ("A", "S a")], note="two cyclic components of the unary graph (S<->T and the self-loop A->A) linked by the unary rule T->A")
_g("G-MLR", [("S", "a A e"), ("S", "b B e"), ("A", "B x"), ("B", "A z"), ("A", "c"), ("B", "d"), ("A", "C y"), ("C", "c")],
   V=("a", "b", "c", "d", "e", "x", "y", "z"), note="mutually left-recursive A, B with further left corners, entered from two different rules of S")
_g("G-DIA", [("S", "A"), ("S", "B"), ("B", "A"), ("A", "a"), ("B", "b"), ("A", "a A")], note="unary diamond: A is reached from S by unary paths of different length")
_g("G-DIA2", [("S", "X b"), ("X", "A"), ("X", "B"), ("B", "A"), ("A", "a"), ("B", "a a"), ("S", "X")], note="unary diamond below another symbol: X -> A | B, B -> A")
_g("G-TOK", [("S", ("a", "b", "S")), ("S", ("ab", "S")), ("S", ()), ("S", ("a",)), ("S", ("b", "a"))], V=("a", "b", "ab"),
   note="tokens a, b and ab: different token sequences spell the same text")
_g("G-HL2", [("S", "A Z"), ("S", "a"), ("A", "b"), ("S", "A A"), ("A", "Z")], note="finite language; Z occurs only in rule bodies (no rules, not a terminal)")
_g("G-SCC3", [("S", "C"), ("B", "S"), ("B", "C"), ("C", "B"), ("C", "a"), ("S", "b"), ("B", "b S")], note="one SCC of three nonterminals in which C is used by two others")
_g("G-LC3", [("S", "E"), ("S", "k Y"), ("S", "j P"), ("Y", "E"), ("Y", "t"), ("E", "P"), ("E", "e"), ("P", "Y y"), ("P", "p")], V=("k", "j", "t", "e", "y", "p"),
   note="left-recursive cycle Y -> E -> P -> Y through unary rules, entered at different members")
_g("G-MB", [("S", "é S"), ("S", "ab"), ("S", "€ T"), ("T", "𝄞"), ("T", "x"), ("S", "é")],
   V=("é", "ab", "€", "𝄞", "x"), note="multi-character and multi-byte terminals")


class A:
    "automaton / transducer skeleton: arcs [(i, label, j)], init/final state lists (weights free too)"

    def __init__(self, name, arcs, init, final, note="", always=()):
        self.name = name
        self.arcs = list(arcs)
        self.init = list(init)
        self.final = list(final)
        self.note = note
        self.always = set(always)

    @property
    def K(self):
        return len(self.arcs) + len(self.init) + len(self.final)


AUTOMATA = {}


def _a(*a, **k):
    m = A(*a, **k)
    AUTOMATA[m.name] = m
    return m


_a("A-EPS", [(0, "a", 1), (0, EPS, 1), (1, EPS, 0), (1, "b", 2), (1, "b", 2), (2, EPS, 2), (0, "a", 3), (4, "a", 2)],
   init=[0, 1], final=[2, 1], note="eps arcs and cycles, two initial/final, parallel arcs, dead 3, unreachable 4")
_a("A-EPS2", [(0, "a", 0), (0, EPS, 1), (1, "b", 1), (1, EPS, 0), (1, "a", 2)], init=[0], final=[0, 2],
   note="eps cycle 0<->1 with loops, initial also final")
_a("A-DAG", [(0, "a", 1), (0, "a", 2), (1, "b", 3), (2, "b", 3), (2, "c", 3), (4, "a", 2), (1, EPS, 2)],
   init=[0, 4], final=[3], note="acyclic, shared prefixes, eps arc, two initial states")
_a("A-DAG2", [(0, "a", 1), (0, "a", 2), (1, "b", 3), (2, "b", 3), (2, "b", 4), (0, "b", 3)], init=[0], final=[3, 4],
   note="acyclic nondeterministic, unequal residuals")
_a("A-DEAD", [(0, "a", 1), (0, "a", 2), (1, "b", 3), (0, "b", 5), (4, "a", 1)], init=[0], final=[3],
   note="arc into a dead state 2 / 5 and an unreachable state 4")
_a("A-D3", [(0, "a", 1), (0, "a", 2), (1, "b", 3), (2, "b", 3)], init=[0], final=[3], note="a*b + a*c style: two paths, 4 arc weights")
_a("A-D4", [(0, "a", 1), (0, "a", 2), (0, "b", 1), (0, "b", 2), (1, "c", 3), (2, "c", 3), (2, "d", 3)], init=[0], final=[3],
   note="two prefixes reach the same state set {1,2} with different residual proportions")
_a("A-CYC", [(0, "a", 1), (0, "a", 2), (1, "b", 0), (2, "b", 0), (0, "c", 3)], init=[0], final=[3],
   note="cyclic but determinisable: both branches return to state 0 (residuals renormalise to the same subset)")
_a("A-MB", [(0, "é", 1), (0, "è", 1), (0, "a", 1), (1, "€", 2), (1, "₭", 2), (2, "𝄞", 0), (1, EPS, 2), ("a", "é", "b"), (0, "é", 2), (1, "℃", 0)],
   init=[0, "a"], final=[2, "b"], note="1-4 byte labels with shared byte prefixes, state names equal to symbols")
_a("A-MB4", [(0, "€", 1), (0, "℃", 1), (0, "日", 2), (0, "本", 2), (1, "x", 3), (2, "y", 3), (0, "₭", 2), (0, "ア", 3)], init=[0], final=[3],
   note="3-byte characters sharing the lead byte but differing in the middle byte (e2 82 ac / e2 84 83; e6 97 a5 / e6 9c ac)")
_a("A-NUL", [(0, "\x00", 1), (1, "a", 2), (0, "a", 2), (1, "é", 0), (2, EPS, 0)], init=[0], final=[2], note="alphabet contains U+0000 (byte 0 is falsy)")
_a("A-ISO", [(0, "a", 1), (1, "b", 2), (0, "a", 3)], init=[0, 5], final=[2, 5], note="an isolated state that is both initial and final (accepts the empty string), plus a dead state 3")
_a("A-MB2", [("p0", "é", "p1"), ("p0", "a", "p1"), ("p1", "x", "p2")], init=["p0"], final=["p2"], note="terminal A: é|a then x")
_a("A-MB3", [("r0", "ü", "r1"), ("r1", "y", "r2")], init=["r0"], final=["r2"], note="terminal B: ü then y")
_a("A-S1", [(0, "a", 1), (1, "b", 0), (0, EPS, 1)], init=[0], final=[1], note="small cycle")
_a("A-S2", [(0, "a", 0), (0, "b", 1), (1, EPS, 0)], init=[0], final=[1, 0], note="small, initial final")

# transducers: labels are (a, b) pairs
TRANSDUCERS = {}


def _t(*a, **k):
    m = A(*a, **k)
    TRANSDUCERS[m.name] = m
    return m


E_ = EPS
_t("T-F1", [(0, ("a", "c"), 1), (0, ("a", E_), 1), (1, ("b", "d"), 2), (1, (E_, E_), 2), (0, (E_, "c"), 2)],
   init=[0], final=[2], note="output-eps, eps:eps, input-eps; acyclic")
_t("T-G1", [(0, ("c", "e"), 1), (0, (E_, "e"), 1), (1, ("d", E_), 2), (1, (E_, "e"), 2), (0, ("c", E_), 2)],
   init=[0], final=[2], note="input-eps and output-eps; acyclic")
_t("T-F2", [(0, ("a", "c"), 0), (0, ("a", E_), 1), (1, (E_, E_), 0), (1, ("b", "c"), 1)], init=[0], final=[0, 1],
   note="cycles incl. an eps:eps cycle through 0-1-0")
_t("T-G2", [(0, ("c", "e"), 0), (0, (E_, "e"), 1), (1, ("c", E_), 0)], init=[0, 1], final=[0],
   note="two initial states, input-eps arc, cyclic")
_t("T-F3", [(0, ("a", "c"), 1), (1, ("a", E_), 1), (1, ("b", "c"), 2), (2, (E_, E_), 2)], init=[0], final=[1, 2],
   note="output-eps self loop, eps:eps self loop")
_t("T-G3", [(0, ("c", "e"), 1), (1, (E_, "f"), 2), (2, ("c", "e"), 0), (0, ("c", "f"), 2)], init=[0], final=[0, 2],
   note="larger second operand (both association orders)")
_t("T-F4", [(0, ("a", "c"), 1), (1, ("b", E_), 2), (2, (E_, "d"), 3), (3, ("a", "c"), 0), (0, (E_, E_), 2)],
   init=[0], final=[3, 0], note="4-state first operand")
_t("T-G4", [(0, ("c", "e"), 0), (0, ("d", E_), 0)], init=[0], final=[0], note="1-state second operand")


_t("T-F5", [(0, (E_, E_), 0), (0, ("a", "c"), 0), (0, ("b", "d"), 1), (1, (E_, E_), 1), (1, ("a", E_), 0)], init=[0], final=[0, 1],
   note="eps:eps self-loops on the initial state and on a final state")
_t("T-F6", [(0, ("a", "c"), 1), (2, ("a", "d"), 1), (1, ("b", E_), 1), (2, (E_, "c"), 0)], init=[0, 2], final=[1], note="two initial states in the FIRST operand")
_t("T-R1", [(0, ("c", "a"), 1), (0, (E_, "a"), 1), (1, ("d", "b"), 1), (1, ("c", E_), 2), (1, (E_, E_), 2), (0, ("d", "b"), 2)],
   init=[0], final=[2, 1], note="output alphabet {a,b}: grammar on the output side")


def all_strings(V, maxlen):
    Vs = sorted(V, key=repr)
    for n in range(maxlen + 1):
        for xs in itertools.product(Vs, repeat=n):
            yield xs
