"""Path-forking symbolic executor (re-execution based) with z3 deciding every branch.

The code under test is ordinary Python from /repo.  Symbolic values (vf.sym) turn every
data-dependent branch into a call to Engine.decide(cond); the engine asks z3 which outcomes
are feasible under the current path condition and explores them depth-first by re-executing
the body from the start with a recorded decision prefix.
"""
import time
import z3


class Abort(BaseException):
    """Engine control flow (never caught by `except Exception` in the code under test)."""

    def __init__(self, kind, detail=""):
        super().__init__(kind, detail)
        self.kind = kind
        self.detail = detail


class OutOfBounds(BaseException):
    """Raised by oracles / summaries when a (sub-)shape is outside the stated bounds."""


class HarnessError(BaseException):
    pass


class PathResult:
    __slots__ = ("pc", "hyps", "value", "abort", "exc", "decisions", "cuts", "star_args", "oob")

    def __init__(self):
        self.pc = []
        self.hyps = []
        self.value = None
        self.abort = None
        self.exc = None
        self.decisions = []
        self.cuts = 0
        self.star_args = []
        self.oob = None


class Engine:
    def __init__(self, timeout_ms=10000, max_paths=20000, max_decisions=4000):
        self.s = z3.Solver()
        # the incremental core is only trusted with what it answers quickly; anything else goes to a fresh solver
        self.s.set("timeout", min(timeout_ms, 1000))
        self.timeout_ms = timeout_ms
        self.max_paths = max_paths
        self.max_decisions = max_decisions
        self.prefix = []
        self.trace = []
        self.pending = []
        self.pc = []
        self.hyps = []
        self.star_args = []
        self.cuts = 0
        self.posvars = set()
        self.known = {}
        self._keep = []
        # statistics
        self.nq = 0
        self.tq = 0.0
        self.nshadow = 0
        self.npaths = 0
        self.nforks = 0
        self.nunknown = 0
        self.exhausted = False

    # -- solver access -------------------------------------------------------
    def check(self, *extra):
        t = time.time()
        r = self.s.check(*extra)
        if r == z3.unknown:
            # the incremental core gave up (non-linear reals): retry once with a fresh solver, which runs
            # z3's full tactic pipeline (nlsat) on path condition + query
            f = z3.Solver()
            f.set("timeout", self.timeout_ms)
            f.add(*self.s.assertions())
            f.add(*extra)
            r = f.check()
            self.nfresh = getattr(self, "nfresh", 0) + 1
        self.tq += time.time() - t
        self.nq += 1
        return r

    def _assert(self, lit):
        self.s.add(lit)
        self.pc.append(lit)

    # -- decisions -----------------------------------------------------------
    def _replay(self, key):
        i = len(self.trace)
        if i < len(self.prefix):
            d, k = self.prefix[i]
            if k != key:
                raise HarnessError(f"nondeterministic replay at decision {i}: {k[:120]} vs {key[:120]}")
            self.trace.append((d, k))
            return True, d
        if i >= self.max_decisions:
            raise Abort("budget", "max_decisions")
        return False, None

    def decide(self, cond):
        """Branch on a z3 Bool; forks when both outcomes are feasible."""
        cond = z3.simplify(cond)
        if z3.is_true(cond):
            return True
        if z3.is_false(cond):
            return False
        cid = cond.get_id()
        if cid in self.known:
            return self.known[cid]
        key = cond.sexpr()
        hit, d = self._replay(key)
        if hit:
            self._assert(cond if d else z3.Not(cond))
            self.known[cid] = d
            self._keep.append(cond)
            return d
        self._keep.append(cond)
        rt = self.check(cond)
        rf = self.check(z3.Not(cond))
        if rt == z3.unknown or rf == z3.unknown:
            self.nunknown += 1
            raise Abort("unknown", key[:200])
        if rt == z3.sat and rf == z3.sat:
            self.nforks += 1
            self.pending.append(list(self.trace) + [(False, key)])
            self.trace.append((True, key))
            self._assert(cond)
            self.known[cid] = True
            return True
        if rt == z3.sat:
            self.trace.append((True, key))
            self._assert(cond)
            self.known[cid] = True
            return True
        if rf == z3.sat:
            self.trace.append((False, key))
            self._assert(z3.Not(cond))
            self.known[cid] = False
            return False
        raise Abort("infeasible", key[:200])

    def fork_free(self, cond):
        """Fork on a condition the caller guarantees to be independent of the path condition
        (a fresh variable being zero): no solver query."""
        key = cond.sexpr()
        hit, d = self._replay(key)
        if hit:
            self._assert(cond if d else z3.Not(cond))
            return d
        self.nforks += 1
        self.pending.append(list(self.trace) + [(False, key)])
        self.trace.append((True, key))
        self._assert(cond)
        return True

    def choose(self, n, tag):
        """Nondeterministic choice of an index in range(n) (schedules, tie-breaks, pop orders)."""
        if n <= 1:
            return 0
        key = f"choice:{tag}:{n}"
        hit, d = self._replay(key)
        if hit:
            return d
        self.nforks += n - 1
        for alt in range(n - 1, 0, -1):
            self.pending.append(list(self.trace) + [(alt, key)])
        self.trace.append((0, key))
        return 0

    def assume_cut(self, lit):
        """Deliberate cut: restrict this path to `lit` (recorded, counted)."""
        self.cuts += 1
        self._assert(lit)

    def hypothesis(self, lit):
        """Path-attached hypothesis (e.g. star argument < 1): part of every obligation's
        antecedent, *not* asserted during exploration (nonlinear literals derail nlsat)."""
        self.hyps.append(lit)

    # -- exploration ---------------------------------------------------------
    def explore(self, body, assume=()):
        out = []
        self.pending = [[]]
        while self.pending:
            if self.npaths >= self.max_paths:
                self.exhausted = True
                break
            self.prefix = self.pending.pop()
            self.trace = []
            self.pc = []
            self.hyps = []
            self.star_args = []
            self.cuts = 0
            self.posvars = set()
            self.known = {}
            self._keep = []
            self.s.push()
            for a in assume:
                self.s.add(a)
            pr = PathResult()
            try:
                pr.value = body(self)
            except Abort as e:
                pr.abort = e
            except OutOfBounds as e:
                pr.oob = str(e)
            except HarnessError:
                raise
            except Exception as e:  # escaped from the code under test: candidate violation
                pr.exc = e
            finally:
                self.s.pop()
            pr.pc = list(self.pc)
            pr.hyps = list(self.hyps)
            pr.decisions = [d for d, _ in self.trace]
            pr.cuts = self.cuts
            pr.star_args = list(self.star_args)
            self.npaths += 1
            out.append(pr)
        return out

    def stats(self):
        return dict(paths=self.npaths, forks=self.nforks, z3_queries=self.nq,
                    z3_seconds=round(self.tq, 3), shadow_answers=self.nshadow,
                    unknown=self.nunknown, path_budget_exhausted=self.exhausted,
                    unexplored_prefixes=len(self.pending))


ENG = None


def set_engine(e):
    global ENG
    ENG = e
    return e


def eng():
    return ENG
