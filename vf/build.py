"""Build real genlm objects from skeletons with weights of a domain, plus the oracle's view."""
from .shapes import AUTOMATA, GRAMMARS, TRANSDUCERS


def grammar_weights(ctx, sk, prefix_offset=0):
    """free rule weights; the job may declare some of them numeric constants (params["const"] = {index: number})"""
    const = {int(k): v for k, v in (ctx.P.get("const") or {}).items()}
    return [ctx.D.const(const[k]) if k in const else ctx.D.var(prefix_offset + k, positive=(k in sk.always)) for k in range(sk.K)]


def make_cfg(ctx, sk, ws, perm=None, rename=None, R=None, wmap=None):
    from genlm.grammar.cfg import CFG

    R = R or ctx.D.R
    f = rename or (lambda x: x)
    cfg = CFG(R=R, S=f(sk.S), V=set(sk.V))
    order = perm if perm is not None else range(sk.K)
    for k in order:
        h, b = sk.rules[k]
        w = ws[k] if wmap is None else wmap(ws[k])
        cfg.add(w, f(h), *[(y if y in sk.V else f(y)) for y in b])
    return cfg


def oracle_rules(ctx, sk, ws, rename=None):
    f = rename or (lambda x: x)
    return [(ctx.D.term(w), f(h), tuple((y if y in sk.V else f(y)) for y in b)) for w, (h, b) in zip(ws, sk.rules)]


def cfg_rules(ctx, cfg):
    "oracle view of an arbitrary (output) grammar of the real code"
    return [(ctx.D.term(r.w), r.head, tuple(r.body)) for r in cfg.rules]


def automaton_weights(ctx, sk, offset=0, always=(), const=None):
    """free weights of a skeleton; `always`: never zero; `const` {local index: number}: not symbolic at all"""
    n = sk.K
    alw = set(sk.always) | set(always)
    const = {int(k): v for k, v in (const or {}).items()}
    return [ctx.D.const(const[k]) if k in const else ctx.D.var(offset + k, positive=(k in alw)) for k in range(n)]


def split_weights(sk, ws):
    na, ni = len(sk.arcs), len(sk.init)
    return ws[:na], ws[na:na + ni], ws[na + ni:]


def make_wfsa(ctx, sk, ws, cls=None, R=None):
    from genlm.grammar.wfsa.base import WFSA

    cls = cls or WFSA
    m = cls(R or ctx.D.R)
    aw, iw, fw = split_weights(sk, ws)
    for (i, a, j), w in zip(sk.arcs, aw):
        m.add_arc(i, a, j, w)
    for q, w in zip(sk.init, iw):
        m.add_I(q, w)
    for q, w in zip(sk.final, fw):
        m.add_F(q, w)
    return m


def make_fst(ctx, sk, ws):
    from genlm.grammar.fst import FST

    return make_wfsa(ctx, sk, ws, cls=FST)


def oracle_machine(ctx, sk, ws):
    aw, iw, fw = split_weights(sk, ws)
    T = ctx.D.term
    num = ctx.num
    arcs = [(i, a, j, T(w)) for (i, a, j), w in zip(sk.arcs, aw)]
    start, stop = {}, {}
    for q, w in zip(sk.init, iw):
        start[q] = num.add(start.get(q, num.zero), T(w))
    for q, w in zip(sk.final, fw):
        stop[q] = num.add(stop.get(q, num.zero), T(w))
    return arcs, start, stop


def machine_view(ctx, m):
    """oracle view of an arbitrary (output) automaton / transducer of the real code.  States are renamed to
    small integers once (by equality): determinised machines have frozendict states holding symbolic weights,
    and every dictionary look-up on such a key costs symbolic comparisons."""
    T = ctx.D.term
    reps = []

    def name(q):
        for k, r in enumerate(reps):
            if r is q:
                return k
        simple = isinstance(q, (int, str, bytes)) or (isinstance(q, tuple) and all(isinstance(x, (int, str, bytes, tuple)) for x in q))
        for k, r in enumerate(reps):
            if (simple and isinstance(r, type(q)) and r == q) or (not simple and not isinstance(r, (int, str, bytes)) and r == q):
                return k
        reps.append(q)
        return len(reps) - 1

    arcs = [(name(i), a, name(j), T(w)) for i, a, j, w in m.arcs()]
    start = {name(q): T(w) for q, w in m.start.items()}
    stop = {name(q): T(w) for q, w in m.stop.items()}
    return arcs, start, stop


def grammar(name):
    return GRAMMARS[name]


def automaton(name):
    return AUTOMATA[name]


def transducer(name):
    return TRANSDUCERS[name]
